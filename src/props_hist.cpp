// C14 (objects independent of each other and of their past) and C15 (error state, token validation, setters):
// generated API histories over up to 3 grammar objects, judged by a pure model and by the same calls on fresh
// objects in a fresh process.
#include "props.hpp"
#include <sys/wait.h>
#include <unistd.h>

namespace vf {
void injectDefectPublic(Choices &c, RawGram &g);
GramDef genTextGramPublic(Choices &c, int tier, bool mutate);
namespace {

enum { NSLOT = 3 };
// op kinds: create s | set s which value | define s g | parse s input mode | errq s | free s
Case genHistory(Choices &c, int tier, const char *prop, bool tokenEmphasis) {
  Case cs;
  cs.prop = prop;
  GramOpts o; o.errorPct = 20; o.ambiguityBias = 10;
  if (tokenEmphasis) o.plainCodes = false;
  int ng = c.range(2, tier ? 5 : 4);
  for (int k = 0; k < ng; k++) {
    GramDef gd;
    int kind = c.upto(9);
    if (kind <= 5) { gd.raw = genGrammar(c, o); gd.strict = c.flip(); if (!classify(gd.raw, gd.strict).empty() && classify(gd.raw, !gd.strict).empty()) gd.strict = !gd.strict; }
    else if (kind <= 6) { gd.raw = genGrammar(c, o); gd.strict = c.flip(); injectDefectPublic(c, gd.raw); }
    else gd = genTextGramPublic(c, 0, kind == 9);
    if (c.chance(12) && !gd.mutated) elongate(c, gd); // one symbol name of 300-1700 characters
    cs.grams.push_back(gd);
  }
  // inputs: sentences / non-sentences of the pool grammars, plus token sequences with undeclared codes
  int ni = c.range(2, 5);
  for (int k = 0; k < ni; k++) {
    const GramDef &gd = cs.grams[c.upto(ng - 1)];
    Gram g;
    std::vector<int> codes;
    if (toGram(gd.raw, g) && classify(gd.raw, gd.strict).empty()) {
      std::vector<int> ml = minLen(g);
      // mostly short inputs; some of 20-30 tokens (ambiguity spanning many tokens, vectors indexed by distance grow)
      int maxLen = c.chance(15) ? 30 : 8;
      codes = toCodes(g, genInputIdx(c, g, ml, maxLen, c.chance(65) ? 0 : (c.flip() ? 1 : 2)));
    }
    if (c.chance(tokenEmphasis ? 45 : 12)) {
      // an undeclared code: between the smallest and the largest declared one, just outside, or far away
      int lo = INT_MAX, hi = -1;
      for (auto &t : gd.raw.terms) if (t.second >= 0) { lo = std::min(lo, t.second); hi = std::max(hi, t.second); }
      int bad;
      if (hi < 0) { lo = 10; hi = 10; }
      if (hi > 1000000000) hi = 1000000000;
      switch (c.upto(4)) {
      case 0: bad = hi > lo + 1 ? lo + 1 + c.upto(hi - lo - 2) : hi + 1; break;
      case 1: bad = hi + 1 + c.upto(3); break;
      case 2: bad = lo > 0 ? lo - 1 : hi + 7; break;
      case 3: bad = INT_MAX - c.upto(2); break;
      default: bad = 1000000 + c.upto(1000); break;
      }
      codes.insert(codes.begin() + c.upto((int)codes.size()), bad);
    }
    cs.inputs.push_back(codes);
  }
  int nops = c.range(4, tier ? 40 : 24);
  bool alive[NSLOT] = {false, false, false};
  for (int k = 0; k < nops; k++) {
    int s = c.upto(NSLOT - 1);
    Op op;
    if (!alive[s]) {
      op.kind = "create"; op.a = {s}; alive[s] = true; cs.ops.push_back(op);
      // a quarter of the objects work with dynamic lookahead, some build all parses (the defaults are 1 and one parse)
      if (c.chance(25)) { Op st; st.kind = "set"; st.a = {s, 0, 2}; cs.ops.push_back(st); }
      if (c.chance(15)) { Op st; st.kind = "set"; st.a = {s, 1, 0}; cs.ops.push_back(st); }
      continue;
    }
    if (c.chance(6)) {
      // a settings walk around a redefinition: parse with one lookahead level, lower or raise it, define again, return to
      // the first level and parse (what a definition leaves behind may depend on the level in force when it was made)
      int la1 = c.chance(60) ? 2 : c.upto(2), la2 = c.chance(60) ? c.upto(1) : c.upto(2);
      auto push = [&](const char *kind, std::vector<long> a) { Op o; o.kind = kind; o.a = a; cs.ops.push_back(o); };
      push("set", {s, 0, la1});
      if (c.chance(50)) push("define", {s, c.upto(ng - 1)});
      push("parse", {s, c.upto(ni - 1), c.upto(2)});
      push("set", {s, 0, la2});
      push("define", {s, c.upto(ng - 1)});
      push("set", {s, 0, la1});
      push("parse", {s, c.upto(ni - 1), c.upto(2)});
      if (c.flip()) push("parse", {s, c.upto(ni - 1), c.upto(2)});
      continue;
    }
    int what = c.upto(99);
    if (what < 42) { op.kind = "parse"; op.a = {s, c.upto(ni - 1), c.chance(tokenEmphasis ? 8 : 4) ? 3 : c.upto(2)}; }
    else if (what < 62) { op.kind = "define"; op.a = {s, c.upto(ng - 1)}; }
    else if (what < 80) {
      int which = c.upto(5);
      long val;
      switch (c.upto(5)) { case 0: val = 0; break; case 1: val = 1; break; case 2: val = 2; break; case 3: val = -1 - c.upto(8); break; case 4: val = 3 + c.upto(6); break; default: val = c.flip() ? INT_MAX : INT_MIN; }
      if (which == 4) val = 1 + c.upto(5);   // recovery_match: documented domain n_toks >= 1
      if (which == 5) val = 0;               // debug level stays 0 in histories (C09 varies it)
      op.kind = "set"; op.a = {s, which, val};
    } else if (what < 90) { op.kind = "errq"; op.a = {s}; }
    else { op.kind = "free"; op.a = {s}; alive[s] = false; }
    cs.ops.push_back(op);
  }
  return cs;
}
Case genC14(Choices &c, int tier) { return genHistory(c, tier, "C14", false); }
Case genC15(Choices &c, int tier) { return genHistory(c, tier, "C15", true); }

struct Settings { int v[6] = {1, 1, 0, 1, 3, 0}; }; // la, one, cost, rec, match, dbg (documented defaults)
int clampLa(long x) { return x < 0 ? 0 : x > 2 ? 2 : (int)x; }
Conf toConf(const Settings &st, int mode) {
  Conf cf; cf.la = st.v[0]; cf.one = st.v[1]; cf.cost = st.v[2]; cf.rec = st.v[3]; cf.match = st.v[4]; cf.dbg = st.v[5];
  cf.freemode = mode == 3 ? 0 : mode;
  return cf;
}
// apply the settings through the setters of a (fresh) object
void applySettings(Binding &b, const Settings &st) { b.set_la(st.v[0]); b.set_one(st.v[1]); b.set_cost(st.v[2]); b.set_rec(st.v[3]); b.set_match(st.v[4]); b.set_dbg(st.v[5]); }

std::string outcomeKey(const Outcome &o) {
  std::string s = o.tupleStr();
  if (o.rc != 0) s += " msg=" + o.errmsg;
  return s;
}

// what the same definition / parse does on a fresh object, computed in a fresh process
struct Fresh {
  std::map<std::string, std::string> m;
};
std::string defKey(int g) { return "D" + std::to_string(g); }
std::string parseKey(int g, const Settings &st, int in, int mode) {
  std::string s = "P" + std::to_string(g) + "/" + std::to_string(in) + "/" + std::to_string(mode == 3 ? 0 : mode);
  for (int i = 0; i < 6; i++) s += "," + std::to_string(st.v[i]);
  return s;
}
bool computeFresh(const Case &cs, const std::vector<std::pair<std::string, std::function<std::string()>>> &jobs, Fresh &out) {
  int fd[2];
  if (pipe(fd)) return false;
  pid_t pid = fork();
  if (pid < 0) return false;
  if (pid == 0) {
    reattachReports();
    close(fd[0]);
    std::string all;
    for (auto &j : jobs) { std::string v = j.second(); all += j.first + "\t" + oneLineStr(v) + "\n"; }
    size_t off = 0;
    while (off < all.size()) { ssize_t k = write(fd[1], all.data() + off, all.size() - off); if (k <= 0) break; off += k; }
    _exit(0);
  }
  close(fd[1]);
  std::string buf; char tmp[65536];
  for (;;) { ssize_t k = read(fd[0], tmp, sizeof tmp); if (k <= 0) break; buf.append(tmp, k); }
  close(fd[0]);
  int status = 0;
  waitpid(pid, &status, 0);
  std::istringstream is(buf);
  std::string line;
  while (std::getline(is, line)) { size_t t = line.find('\t'); if (t != std::string::npos) out.m[line.substr(0, t)] = line.substr(t + 1); }
  (void)cs;
  return WIFEXITED(status) && WEXITSTATUS(status) == 0;
}

Verdict runHistory(const Case &cs) {
  Verdict v;
  bool cutShort = false; // a parse ended by one of the harness limits: its unfinished tree belongs to nobody
  int ng = cs.grams.size(), ni = cs.inputs.size();
  if (!ng || !ni) { v.st = V_DISCARD; return v; }
  // ---------- pass 1: the pure model walks the history and lists the fresh-object jobs
  struct Slot { bool alive = false; int gram = -1; bool defined = false; Settings st; };
  std::vector<std::pair<std::string, std::function<std::string()>>> jobs;
  std::set<std::string> seen;
  {
    Slot sl[NSLOT];
    for (auto &op : cs.ops) {
      int s = (int)op.a[0];
      if (s < 0 || s >= NSLOT) continue;
      if (op.kind == "create") { sl[s] = Slot(); sl[s].alive = true; }
      else if (!sl[s].alive) continue;
      else if (op.kind == "free") sl[s].alive = false;
      else if (op.kind == "set") { int w = (int)op.a[1]; if (w >= 0 && w < 6) sl[s].st.v[w] = w == 0 ? clampLa(op.a[2]) : (int)op.a[2]; }
      else if (op.kind == "define") {
        int g = (int)op.a[1];
        if (g < 0 || g >= ng) continue;
        sl[s].gram = g;
        std::string k = defKey(g);
        if (seen.insert(k).second) jobs.push_back({k, [&cs, g]() {
          Binding *b = newCBinding(); b->create();
          int rc = defineGrammar(*b, cs.grams[g]);
          std::string r = std::to_string(rc) + "|" + (rc ? b->error_message() : "");
          b->destroy(); delete b; return r; }});
      } else if (op.kind == "parse") {
        int in = (int)op.a[1], mode = (int)op.a[2];
        if (in < 0 || in >= ni || sl[s].gram < 0 || mode == 3) continue;
        int g = sl[s].gram; Settings st = sl[s].st;
        std::string k = parseKey(g, st, in, mode);
        if (seen.insert(k).second) jobs.push_back({k, [&cs, g, st, in, mode]() {
          Binding *b = newCBinding(); b->create();
          if (defineGrammar(*b, cs.grams[g]) != 0) { b->destroy(); delete b; return std::string("UNDEFINED"); }
          yaep_verif.rec_limit = REC_LIMIT;
          Outcome o = runParse(*b, cs.inputs[in], toConf(st, mode));
          std::string r = o.exploded() ? "EXPLOSION" : outcomeKey(o);
          b->destroy(); delete b; return r; }});
      }
    }
  }
  Fresh fresh;
  if (!computeFresh(cs, jobs, fresh)) { v.fail("a definition or parse of this history crashed when run alone on a fresh object in a fresh process (sanitizer report, abort or exit)"); return v; }
  // ---------- pass 2: the real history
  long base = g_lib.live_blocks;
  Slot sl[NSLOT];
  Binding *ob[NSLOT] = {nullptr, nullptr, nullptr};
  int lastErr[NSLOT] = {0, 0, 0};
  int nAlive = 0, maxAlive = 0, step = 0;
  std::set<int> parsesOn[NSLOT];
  int nParse[NSLOT] = {0, 0, 0};
  std::vector<int> createOrder, freeOrder;
  bool setTwice[NSLOT][6] = {};
  for (auto &op : cs.ops) {
    step++;
    int s = (int)op.a[0];
    if (s < 0 || s >= NSLOT) continue;
    std::string at = " (step " + std::to_string(step) + ": " + op.kind + " slot " + std::to_string(s) + ")";
    if (op.kind == "create") {
      if (sl[s].alive) continue;
      ob[s] = newCBinding();
      if (!ob[s]->create()) { v.fail("yaep_create_grammar returned NULL" + at); return v; }
      sl[s] = Slot(); sl[s].alive = true; lastErr[s] = 0; nParse[s] = 0;
      nAlive++; maxAlive = std::max(maxAlive, nAlive); createOrder.push_back(s);
      if (ob[s]->error_code() != 0) { v.fail("error code of a new object is not 0" + at); return v; }
      continue;
    }
    if (!sl[s].alive) continue;
    Binding &b = *ob[s];
    if (op.kind == "free") {
      b.destroy(); delete ob[s]; ob[s] = nullptr; sl[s].alive = false; nAlive--; freeOrder.push_back(s);
    } else if (op.kind == "set") {
      int w = (int)op.a[1]; int val = (int)op.a[2];
      if (w < 0 || w >= 6) continue;
      int old = w == 0 ? b.set_la(val) : w == 1 ? b.set_one(val) : w == 2 ? b.set_cost(val) : w == 3 ? b.set_rec(val) : w == 4 ? b.set_match(val) : b.set_dbg(val);
      if (old != sl[s].st.v[w]) { v.fail("setter " + std::to_string(w) + " returned " + std::to_string(old) + ", previous value (or documented default) is " + std::to_string(sl[s].st.v[w]) + at); return v; }
      sl[s].st.v[w] = w == 0 ? clampLa(val) : val;
      if (setTwice[s][w]) v.labels.insert("h:setter-called-twice");
      setTwice[s][w] = true;
      if (w == 0 && (val < 0 || val > 2)) v.labels.insert("h:lookahead-clamped");
    } else if (op.kind == "errq") {
      if (b.error_code() != lastErr[s]) { v.fail("yaep_error_code is " + std::to_string(b.error_code()) + ", the most recent failing call returned " + std::to_string(lastErr[s]) + at); return v; }
      if (lastErr[s] != 0 && std::string(b.error_message()).empty()) { v.fail("empty error message after a failing call" + at); return v; }
      if (lastErr[s] != 0) v.labels.insert("h:getter-after-failure");
    } else if (op.kind == "define") {
      int g = (int)op.a[1];
      if (g < 0 || g >= ng) continue;
      bool redef = sl[s].gram >= 0;
      int rc = defineGrammar(b, cs.grams[g]);
      v.parses++;
      std::string exp = fresh.m[defKey(g)];
      std::string got = std::to_string(rc) + "|" + (rc ? b.error_message() : "");
      if (got != exp) { v.fail("definition behaves differently from the same definition on a fresh object: got " + got + " expected " + exp + (redef ? " (redefinition)" : "") + at); return v; }
      if (!cs.grams[g].use_text) {
        std::set<int> D = classify(cs.grams[g].raw, cs.grams[g].strict);
        if ((rc == 0) != D.empty() || (rc != 0 && !D.count(rc))) { v.fail("definition result " + std::to_string(rc) + " contradicts the reference classifier" + at); return v; }
      }
      sl[s].gram = g; sl[s].defined = rc == 0;
      if (rc != 0) { lastErr[s] = rc; if (b.error_code() != rc) { v.fail("error code not recorded after a failing definition" + at); return v; } }
      if (redef) v.labels.insert(rc == 0 ? "h:redefinition" : "h:failed-redefinition");
      else if (rc != 0) v.labels.insert("h:failed-definition");
    } else if (op.kind == "parse") {
      int in = (int)op.a[1], mode = (int)op.a[2];
      if (in < 0 || in >= ni) continue;
      const std::vector<int> &codes = cs.inputs[in];
      Conf cf = toConf(sl[s].st, mode);
      if (mode == 3) {
        // NULL allocator with a non-NULL free
        yaep_tree_node *root = nullptr; int amb = 0;
        int rc = b.parse([](void **a) { *a = nullptr; return -1; }, [](int, void *, int, void *, int, void *) {}, nullptr, tree_free, &root, &amb);
        bool undefined = sl[s].gram < 0 || !sl[s].defined;
        if (!(rc == E_NOMEM || (undefined && rc == E_UNDEF))) { v.fail("parse with a NULL allocator and a non-NULL free returned " + std::to_string(rc) + at); return v; }
        lastErr[s] = rc;
        // the failing call must be visible through yaep_error_code as well
        if (b.error_code() != rc) {
          if (kfListed("KF-C15-null-alloc-error-not-recorded")) { v.known = "KF-C15-null-alloc-error-not-recorded"; if (v.st == V_PASS) v.st = V_KNOWN; v.labels.insert("attributed:KF-C15-null-alloc-error-not-recorded"); lastErr[s] = b.error_code(); }
          else { v.fail("yaep_parse returned YAEP_NO_MEMORY for a NULL allocator but yaep_error_code is " + std::to_string(b.error_code()) + at); return v; }
        }
        v.labels.insert("h:null-allocator");
        continue;
      }
      yaep_verif.rec_limit = REC_LIMIT;
      // the settings live in the object (the `set' operations put them there): the parse must not be preceded by setter
      // calls, or a setting altered behind the user's back by an earlier call would be repaired before anybody could see it
      ParseOpts hpo; hpo.apply_settings = false;
      Outcome o = runParse(b, codes, cf, hpo);
      v.parses++;
      if (o.exploded()) { v.labels.insert(o.explosionLabel()); lastErr[s] = o.rc; cutShort = true; continue; }
      if (o.t_bad_free) { v.fail("parse_free misuse: " + o.t_bad + at); return v; }
      if (sl[s].gram < 0 || !sl[s].defined) {
        if (o.rc != E_UNDEF) { v.fail("parse on an object without a (valid) grammar returned " + std::to_string(o.rc) + " instead of YAEP_UNDEFINED_OR_BAD_GRAMMAR: " + o.str() + at); return v; }
        lastErr[s] = o.rc;
        v.labels.insert(sl[s].gram < 0 ? "h:parse-undefined" : "h:parse-after-failed-definition");
        if (b.error_code() != o.rc) { v.fail("error code not recorded after a failing parse" + at); return v; }
        continue;
      }
      // token validation (model)
      const GramDef &gd = cs.grams[sl[s].gram];
      std::set<int> declared;
      for (auto &t : gd.raw.terms) declared.insert(t.second);
      int firstBad = -1;
      for (int cde : codes) if (!declared.count(cde)) { firstBad = cde; break; }
      if (gd.mutated) { firstBad = -1; if (o.rc == E_BADTOK) goto compare_with_fresh; } // a mutated text: only the fresh-object comparison applies
      if ((o.rc == E_BADTOK) != (firstBad >= 0)) { v.fail(std::string("YAEP_INVALID_TOKEN_CODE ") + (firstBad >= 0 ? "expected for undeclared code " + std::to_string(firstBad) : "although every code is declared") + ": " + o.str() + at); return v; }
      if (firstBad >= 0) {
        v.labels.insert("h:invalid-token");
        int lo = INT_MAX, hi = -1; for (int d : declared) { lo = std::min(lo, d); hi = std::max(hi, d); }
        if (firstBad > lo && firstBad < hi) v.labels.insert("h:invalid-token-between-declared-codes");
        if (o.errmsg.find(std::to_string(firstBad)) == std::string::npos) { v.fail("message of YAEP_INVALID_TOKEN_CODE does not name the offending code " + std::to_string(firstBad) + ": '" + o.errmsg + "'" + at); return v; }
      }
    compare_with_fresh:
      std::string exp = fresh.m[parseKey(sl[s].gram, sl[s].st, in, mode)];
      if (exp == "EXPLOSION") { v.labels.insert("excluded:F27-recovery-explosion"); continue; }
      std::string got = oneLineStr(outcomeKey(o));
      if (got != exp) { v.fail("parse behaves differently from the same parse on a fresh object: got " + got + " expected " + exp + at); return v; }
      if (o.rc != 0) { lastErr[s] = o.rc; if (b.error_code() != o.rc) { v.fail("error code not recorded after a failing parse" + at); return v; } }
      nParse[s]++;
      if (nParse[s] >= 2) v.labels.insert("h:several-parses-on-one-object");
    }
  }
  // last sweep: one more call of every setter on every live object; each returns what the history last put there
  for (int s = 0; s < NSLOT; s++) if (ob[s] && sl[s].alive) {
    Binding &b = *ob[s];
    int got[6] = {b.set_la(1), b.set_one(1), b.set_cost(0), b.set_rec(1), b.set_match(3), b.set_dbg(0)};
    for (int w = 0; w < 6; w++)
      if (got[w] != sl[s].st.v[w]) { v.fail("at the end of the history setter " + std::to_string(w) + " of object " + std::to_string(s) + " returned " + std::to_string(got[w]) + ", the value last set (or the documented default) is " + std::to_string(sl[s].st.v[w])); return v; }
  }
  for (int s = 0; s < NSLOT; s++) if (ob[s]) { ob[s]->destroy(); delete ob[s]; freeOrder.push_back(s); }
  if (!cutShort && g_lib.live_blocks != base) { v.fail("after every object and tree was freed the library still holds " + std::to_string(g_lib.live_blocks - base) + " blocks"); return v; }
  if (maxAlive >= 2) v.labels.insert("h:several-objects-alive");
  if (createOrder != freeOrder) v.labels.insert("h:freed-in-non-creation-order");
  if (maxAlive >= 2 || v.labels.count("h:several-parses-on-one-object") || v.labels.count("h:redefinition") || v.labels.count("h:failed-redefinition") ||
      v.labels.count("h:parse-after-failed-definition") || v.labels.count("h:getter-after-failure") || v.labels.count("h:invalid-token") || v.labels.count("h:setter-called-twice"))
    v.nontrivial = true;
  return v;
}


// ================================================================= C16: class yaep (libyaep++) == C functions (libyaep)
Case genC16(Choices &c, int tier) {
  Case cs = genHistory(c, tier, "C16", c.flip());
  if (c.chance(20)) {
    // a long input that makes the C++ containers (hash table, object stack, VLO) grow and chain segments
    cs.par["long"] = 1;
    cs.par["longfam"] = c.upto(3);
    cs.par["longlen"] = 2500 + c.upto(tier ? 30000 : 5000);
    cs.par["longla"] = c.upto(2);
    cs.par["longerr"] = c.chance(30);
  }
  return cs;
}

// transcript of a history on one binding: one line per call
std::vector<std::string> transcribe(const Case &cs, Binding *(*mk)(), long *containerGrowth) {
  std::vector<std::string> tr;
  int ng = cs.grams.size(), ni = cs.inputs.size();
  Binding *ob[NSLOT] = {nullptr, nullptr, nullptr};
  int step = 0;
  for (auto &op : cs.ops) {
    step++;
    int s = (int)op.a[0];
    if (s < 0 || s >= NSLOT) continue;
    std::string at = std::to_string(step) + ":" + op.kind + " ";
    if (op.kind == "create") { if (ob[s]) continue; ob[s] = mk(); bool ok = ob[s]->create(); tr.push_back(at + (ok ? "ok" : "NULL") + " code=" + std::to_string(ob[s]->error_code())); continue; }
    if (!ob[s]) continue;
    Binding &b = *ob[s];
    if (op.kind == "free") { b.destroy(); delete ob[s]; ob[s] = nullptr; tr.push_back(at); }
    else if (op.kind == "set") {
      int w = (int)op.a[1], val = (int)op.a[2];
      if (w < 0 || w >= 6) continue;
      int old = w == 0 ? b.set_la(val) : w == 1 ? b.set_one(val) : w == 2 ? b.set_cost(val) : w == 3 ? b.set_rec(val) : w == 4 ? b.set_match(val) : b.set_dbg(val);
      tr.push_back(at + std::to_string(old));
    } else if (op.kind == "errq") tr.push_back(at + std::to_string(b.error_code()) + " '" + b.error_message() + "'");
    else if (op.kind == "define") {
      int g = (int)op.a[1];
      if (g < 0 || g >= ng) continue;
      int rc = defineGrammar(b, cs.grams[g]);
      tr.push_back(at + std::to_string(rc) + " code=" + std::to_string(b.error_code()) + " '" + b.error_message() + "'");
    } else if (op.kind == "parse") {
      int in = (int)op.a[1], mode = (int)op.a[2];
      if (in < 0 || in >= ni) continue;
      if (mode == 3) {
        yaep_tree_node *root = nullptr; int amb = 0;
        int rc = b.parse([](void **a) { *a = nullptr; return -1; }, [](int, void *, int, void *, int, void *) {}, nullptr, tree_free, &root, &amb);
        tr.push_back(at + "nullalloc " + std::to_string(rc) + " code=" + std::to_string(b.error_code()));
        continue;
      }
      // the current settings live in the object: read them back without changing them
      Conf cf;
      cf.la = b.set_la(0); b.set_la(cf.la); cf.one = b.set_one(0); b.set_one(cf.one); cf.cost = b.set_cost(0); b.set_cost(cf.cost);
      cf.rec = b.set_rec(0); b.set_rec(cf.rec); cf.match = b.set_match(1); b.set_match(cf.match); cf.dbg = 0; cf.freemode = mode;
      yaep_verif.alt_limit = LONG_MAX / 2; yaep_verif.rec_limit = -1; // no harness limits here: libyaep++ has no hooks, both sides must run alike
      Outcome o = runParse(b, cs.inputs[in], cf);
      tr.push_back(at + oneLineStr(o.str()) + " alloc=" + std::to_string(o.t_alloc) + " free=" + std::to_string(o.t_free) + " badfree=" + std::to_string(o.t_bad_free) +
                   " live_after_free=" + std::to_string(o.t_live_after_free) + " termcb=" + std::to_string(o.termcb_calls));
    }
  }
  for (int s = 0; s < NSLOT; s++) if (ob[s]) { ob[s]->destroy(); delete ob[s]; }
  if (cs.P("long")) {
    // fixed deterministic families: left-recursive list, right-recursive list, expressions
    static const char *fam[] = {
        "TERM;\nL : L 'a' # l (0 1)\n | 'a' # 0\n ;\n",
        "TERM;\nL : 'a' L # r (0 1)\n | 'a' # 0\n | error # e\n ;\n",
        "TERM;\nE : E '+' T # plus (0 2)\n | T # 0\n ;\nT : T '*' F # mul (0 2)\n | F # 0\n ;\nF : 'a' # 0\n | '(' E ')' # 1\n ;\n",
        // ambiguous, all parses, 5-24 operands: ambiguity spanning dozens of tokens (distance-indexed vectors grow inside one set)
        "TERM;\nE : E '+' E # plus (0 2)\n | E '*' E # mul (0 2)\n | 'a' # 0\n ;\n"};
    int f = (int)cs.P("longfam") % 4;
    long n = cs.P("longlen");
    if (f == 3) n = 5 + n % 20;
    if (f == 1 && n > 12000) n = 12000; // right recursion: the sets grow with the input (quadratic memory)
    std::vector<int> codes;
    if (f < 2) codes.assign(n, 'a');
    else { for (long i = 0; i < n; i++) { codes.push_back('a'); if (i + 1 < n) codes.push_back(i % 7 == 3 ? '*' : '+'); } }
    if (cs.P("longerr")) codes[codes.size() / 2] = f < 2 ? 'a' : '+';
    Binding *b = mk();
    b->create();
    GramDef gd; gd.use_text = true; gd.text = fam[f]; gd.strict = 1;
    long before = g_lib.n_requests;
    int rc = defineGrammar(*b, gd);
    Conf cf; cf.la = (int)cs.P("longla"); cf.one = f == 3 ? 0 : 1; cf.rec = 1; cf.match = 3;
    ParseOpts po; po.analyse_tree = false; po.free_tree = false; po.keep_tracking = false;
    Outcome o = runParse(*b, codes, cf, po);
    if (containerGrowth) *containerGrowth = g_lib.n_requests - before;
    std::set<void *> blocks; long nTerm = 0;
    if (o.rootptr) { collectBlocks(o.rootptr, blocks, nTerm); o.tree.n_nodes = (long)blocks.size(); }
    std::string t = "long rc=" + std::to_string(rc) + "/" + std::to_string(o.rc) + " root=" + std::to_string(o.root) + " amb=" + std::to_string(o.amb) + " errs=";
    for (auto &e : o.errs) t += e.str();
    t += " nodes=" + std::to_string(o.tree.n_nodes) + " terms=" + std::to_string(nTerm) + " alloc=" + std::to_string(o.t_alloc) + " free=" + std::to_string(o.t_free);
    b->destroy(); delete b;
    if (o.rootptr) {
      resetTermcb();
      Binding *fb = mk();
      fb->free_tree(o.rootptr, tree_free, termcbFn);
      delete fb;
      t += " freed: termcb=" + std::to_string(termcbCalls()) + " left=" + std::to_string(g_tree.live.size()) + " bad=" + std::to_string(g_tree.n_bad_free);
    }
    tr.push_back(t);
  }
  return tr;
}

Verdict runC16(const Case &cs) {
  Verdict v;
  if (cs.grams.empty() || cs.inputs.empty()) { v.st = V_DISCARD; return v; }
  yaep_verif.rec_limit = REC_LIMIT;
  long growC = 0, growX = 0;
  long base = g_lib.live_blocks;
  std::vector<std::string> a = transcribe(cs, newCBinding, &growC);
  // a parse that the harness's cap on live library memory cut short (right-recursive list of tens of thousands of tokens:
  // Earley sets of linear size) says nothing about the two interfaces
  if (g_lib.cap_hits) { v.st = V_DISCARD; v.labels.insert("discard:memory-cap"); return v; }
  if (g_lib.live_blocks != base) { v.fail("C interface: library holds memory after the history"); return v; }
  std::vector<std::string> b = transcribe(cs, newXBinding, &growX);
  if (g_lib.cap_hits) { v.st = V_DISCARD; v.labels.insert("discard:memory-cap"); return v; }
  if (g_lib.live_blocks != base) { v.fail("C++ interface: library holds " + std::to_string(g_lib.live_blocks - base) + " blocks after the same history (the C interface holds none)"); return v; }
  v.parses = a.size() + b.size();
  if (a.size() != b.size()) { v.fail("transcripts of different length"); return v; }
  for (size_t i = 0; i < a.size(); i++)
    if (a[i] != b[i]) { v.fail("C and C++ interfaces differ at call " + a[i].substr(0, a[i].find(' ')) + "  C: " + a[i] + "   C++: " + b[i]); return v; }
  int nobj = 0, nparse = 0;
  for (auto &op : cs.ops) { if (op.kind == "create") nobj++; if (op.kind == "parse") nparse++; }
  if (cs.P("long")) { v.labels.insert("x:long-input"); if (growX > 40) { v.nontrivial = true; v.labels.insert("x:containers-grew"); } }
  if (nobj >= 2 && nparse >= 1) { v.nontrivial = true; v.labels.insert("x:history-with-several-objects"); }
  for (auto &l : a) { if (l.find("errs=(") != std::string::npos) v.labels.insert("x:syntax-error-callbacks"); if (l.find("trees={") != std::string::npos) v.labels.insert("x:trees-compared"); if (l.find("rc=17") != std::string::npos) v.labels.insert("x:invalid-token"); }
  return v;
}

} // namespace

extern const PropDef g_props_hist[] = {
    {"C14", genC14, runHistory,
     "generated API histories (4-24 operations, thorough 40) over 3 object slots: create, six setters with arbitrary ints, define by callbacks or "
     "text from a pool of 2-5 good, defective and mutated grammars, parse an input of the pool with {tracking alloc+free, alloc only, default "
     "allocator, NULL alloc + free}, error query, free; oracle: every definition and parse must equal the same call on a fresh object computed "
     "in a fresh process (and the reference classifier / token model), failed definition => parse refuses until a good one, setter results and "
     "error state follow a pure model, no memory held at the end; all under ASan. Non-trivial: >= 2 objects alive at once, or >= 2 parses on one "
     "object, or a (failed) redefinition, or parse after a failed definition.",
     30},
    {"C15", genC15, runHistory,
     "as C14 with emphasis on getters and token validation: 45% of the inputs carry an undeclared code (between the smallest and largest "
     "declared code, just outside, INT_MAX, far away) over dense, sparse and gapped code sets; oracle: pure model of the documented contract "
     "(error code 0 on a new object, then the code of the most recent failing call, non-empty message naming the invalid token, "
     "INVALID_TOKEN_CODE iff an undeclared non-negative code is delivered, UNDEFINED_OR_BAD_GRAMMAR iff undefined, NO_MEMORY for NULL alloc + "
     "free, setters return the previous value, defaults 1,1,0,1,3,0, lookahead clamped to 0..2). Non-trivial: a failing call followed by a getter, "
     "an invalid token, or a setter called twice.",
     30},
    {"C16", genC16, runC16,
     "the C14/C15 history generator; every history is executed through libyaep (C functions) and through class yaep of libyaep++ (separate "
     "C++ hash table / object stack / VLO implementations) in one process; in 20% of the cases followed by a parse of 2500-7500 tokens "
     "(thorough 32500) of a list or expression grammar, with an injected error in 30%; oracle: the two transcripts (return codes, error codes and "
     "messages, setter results, syntax_error arguments, ambiguity flag, denoted trees with costs, numbers of parse_alloc/parse_free/terminal "
     "callback calls, blocks left by free_tree) are identical and neither library holds memory afterwards. Non-trivial: long input on which "
     "the containers requested > 40 blocks, or a history with >= 2 objects and a parse.",
     40},
};
extern const int g_nprops_hist = sizeof(g_props_hist) / sizeof(g_props_hist[0]);

} // namespace vf
