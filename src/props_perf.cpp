// C18: parsing work grows near-linearly on deterministic grammars (machine independent work units).
#include "props.hpp"
#include <fstream>
#include <sstream>
#include <sys/wait.h>
#include <unistd.h>

namespace vf {
namespace {

const char CHAIN_OPS[] = "+-*/%&|^<>=!~?:."; // one binary operator per precedence level
// family 3: left-recursive precedence chain of L levels (the shape of the expression part of a C grammar):
//   E1 : E1 op1 E2 | E2 ;  ...  EL : EL opL F | F ;  F : 'a' | '(' E1 ')'
std::string chainText(int L) {
  std::string t = "TERM;\n";
  for (int i = 1; i <= L; i++) {
    std::string e = "E" + std::to_string(i), nx = i < L ? "E" + std::to_string(i + 1) : "F";
    t += e + " : " + e + " '" + CHAIN_OPS[i - 1] + "' " + nx + " # o" + std::to_string(i) + " (0 2)\n | " + nx + " # 0\n ;\n";
  }
  t += "F : 'a' # 0\n | '(' E1 ')' # 1\n ;\n";
  return t;
}
// family 4: the ANSI C grammar of the repository's test41 (fixtures/ansic/description.txt) on the token stream of the
// repository's test/test.i (75898 tokens, fixtures/ansic/tokens.txt), cut after complete external declarations
struct AnsiC { std::string text; std::vector<int> toks; std::vector<long> cuts; bool ok = false; };
const AnsiC &ansiC() {
  static AnsiC a;
  static bool tried = false;
  if (tried) return a;
  tried = true;
  std::string dir = rootDir() + "/fixtures/ansic/";
  std::ifstream d(dir + "description.txt"), t(dir + "tokens.txt");
  if (!d || !t) return a;
  std::stringstream ss; ss << d.rdbuf(); a.text = ss.str();
  int x; while (t >> x) a.toks.push_back(x);
  // external declarations end with ';' at bracket depth 0 or are function definitions followed by the next declaration
  long depth = 0;
  for (size_t i = 0; i < a.toks.size(); i++) {
    int k = a.toks[i];
    if (k == '{' || k == '(' || k == '[') depth++;
    else if (k == '}' || k == ')' || k == ']') depth--;
    if (depth == 0 && k == ';') a.cuts.push_back((long)i + 1); // function definitions lie between two such places
  }
  a.ok = !a.text.empty() && a.toks.size() > 1000 && !a.cuts.empty();
  return a;
}
const char *famText(int f) {
  switch (f) {
  default:
  case 0: return "TERM;\nL : L ',' 'a' # l (0 2)\n | 'a' # 0\n ;\n";
  case 1: return "TERM;\nE : E '+' T # plus (0 2)\n | E '-' T # minus (0 2)\n | T # 0\n ;\nT : T '*' F # mul (0 2)\n | F # 0\n ;\nF : 'a' # 0\n | '(' E ')' # 1\n | '-' F # neg (1)\n ;\n";
  case 2: return "TERM;\nP : P S # p (0 1)\n | S # 0\n ;\nS : 'i' '=' E ';' # asg (0 2)\n | 'w' '(' E ')' '{' P '}' # wh (2 5)\n | '{' '}' # emp\n ;\nE : E '+' T # plus (0 2)\n | T # 0\n ;\nT : 'i' # 0\n | 'n' # 0\n | '(' E ')' # 1\n ;\n";
  }
}
// one sentence fragment of family f built from choices (bounded nesting)
void genExpr(Choices &c, int depth, std::vector<int> &w) {
  int k = depth > 3 ? 0 : c.upto(9);
  if (k < 5) w.push_back('a');
  else if (k < 7) { w.push_back('('); genExpr(c, depth + 1, w); w.push_back(c.flip() ? '+' : '*'); genExpr(c, depth + 1, w); w.push_back(')'); }
  else if (k < 8) { w.push_back('-'); genExpr(c, depth + 1, w); }
  else { genExpr(c, depth + 1, w); w.push_back("+-*"[c.upto(2)]); genExpr(c, depth + 1, w); }
}
void genStmt(Choices &c, int depth, std::vector<int> &w) {
  int k = depth > 2 ? 0 : c.upto(9);
  auto expr = [&]() { w.push_back(c.flip() ? 'i' : 'n'); int m = c.upto(2); for (int i = 0; i < m; i++) { w.push_back('+'); if (c.chance(30)) { w.push_back('('); w.push_back('i'); w.push_back('+'); w.push_back('n'); w.push_back(')'); } else w.push_back('i'); } };
  if (k < 6) { w.push_back('i'); w.push_back('='); expr(); w.push_back(';'); }
  else if (k < 7) { w.push_back('{'); w.push_back('}'); }
  else { w.push_back('w'); w.push_back('('); expr(); w.push_back(')'); w.push_back('{'); int m = c.range(1, 3); for (int i = 0; i < m; i++) genStmt(c, depth + 1, w); w.push_back('}'); }
}

Case genC18(Choices &c, int tier) {
  Case cs;
  cs.prop = "C18";
  int f = c.upto(9) == 9 ? 4 : c.upto(3); // 10% ANSI C
  cs.par["family"] = f;
  if (f == 4) {
    // ANSI C: window of the real token stream starting at external declaration number `from'; n and 2n are cut positions
    cs.par["la"] = c.upto(2);
    static const int na[] = {1000, 2000, 4000, 8000, 16000, 32000};
    cs.par["n"] = na[c.upto(tier ? 5 : 4)];
    cs.par["from"] = c.upto(2000);
    cs.inputs.push_back({});
    return cs;
  }
  int L = 0;
  if (f == 3) { L = c.range(2, 16); cs.par["levels"] = L; }
  cs.par["la"] = c.upto(2);
  static const int ns[] = {1000, 2000, 4000, 8000, 16000, 32000, 64000, 128000, 256000};
  cs.par["n"] = ns[c.upto(tier ? 8 : 5)];
  // quick tier: a few cases at 64k and 128k tokens (containers beyond 128 KB, tables beyond their initial sizes)
  if (!tier && c.chance(6)) cs.par["n"] = ns[6 + c.upto(1)];
  // a pool of fragments; the inputs of length ~n and ~2n are concatenations of them
  int nf = c.range(2, 6);
  for (int i = 0; i < nf; i++) {
    std::vector<int> w;
    if (f == 0) { int m = c.range(1, 5); for (int k = 0; k < m; k++) { if (k) w.push_back(','); w.push_back('a'); } }
    else if (f == 1) genExpr(c, 0, w);
    else if (f == 3) { // a op a op ... with operators of any level, sometimes a parenthesised operand
      int m = c.range(1, 6);
      for (int k = 0; k < m; k++) {
        if (k) w.push_back(CHAIN_OPS[c.upto(L - 1)]);
        if (c.chance(15)) { w.push_back('('); w.push_back('a'); w.push_back(CHAIN_OPS[c.upto(L - 1)]); w.push_back('a'); w.push_back(')'); } else w.push_back('a');
      }
    }
    else genStmt(c, 0, w);
    cs.inputs.push_back(w);
  }
  cs.par["mix"] = c.upto(1000);
  if (f == 3) cs.par["glue"] = c.upto(2); // fragments joined by the lowest / the highest / any level's operator
  return cs;
}

std::vector<int> assemble(const Case &cs, long n) {
  int f = (int)cs.P("family");
  if (f == 4) {
    const AnsiC &a = ansiC();
    std::vector<int> w;
    if (!a.ok) return w;
    // start after external declaration number from (mod), end at the first cut >= start + n (the tail of the file if short)
    size_t ci = (size_t)cs.P("from") % a.cuts.size();
    long start = ci == 0 ? 0 : a.cuts[ci - 1];
    if (start + 2 * cs.P("n", 1000) > (long)a.toks.size()) start = 0;
    long end = (long)a.toks.size();
    for (long cpos : a.cuts) if (cpos >= start + n) { end = cpos; break; }
    w.assign(a.toks.begin() + start, a.toks.begin() + end);
    return w;
  }
  std::vector<int> w;
  unsigned long x = (unsigned long)cs.P("mix") * 2654435761u + 12345;
  while ((long)w.size() < n) {
    x = x * 6364136223846793005UL + 1442695040888963407UL;
    const std::vector<int> &fr = cs.inputs[(x >> 33) % cs.inputs.size()];
    if (!w.empty()) {
      if (f == 0) w.push_back(',');
      else if (f == 1) w.push_back((x >> 20) & 1 ? '+' : '*');
      else if (f == 3) { long L = cs.P("levels", 4); long glue = cs.P("glue", 0); w.push_back(CHAIN_OPS[glue == 0 ? 0 : glue == 1 ? L - 1 : (long)((x >> 20) % (unsigned long)L)]); }
    }
    w.insert(w.end(), fr.begin(), fr.end());
  }
  return w;
}

struct Work { long bytes, searches, collisions, sets, cores, hits, triples, toks; int rc; bool tree; size_t nerr; };
bool measure(const Case &cs, const std::vector<int> &w, Work &wk, Verdict &v) {
  Binding *b = newCBinding();
  b->create();
  GramDef gd; gd.use_text = true; gd.text = cs.P("family") == 4 ? ansiC().text : cs.P("family") == 3 ? chainText((int)cs.P("levels", 4)) : std::string(famText((int)cs.P("family"))); gd.strict = 1;
  if (defineGrammar(*b, gd) != 0) { v.fail(std::string("family grammar rejected: ") + b->error_message()); return false; }
  Conf cf; cf.la = (int)cs.P("la", 1); cf.one = 1; cf.rec = 0;
  cf.freemode = 1; // the tree is released by the harness: yaep_free_tree recurses once per tree level (listed finding KF-C13-free-tree-deep-recursion)
  ParseOpts po; po.analyse_tree = false;
  long b0 = g_lib.bytes_requested;
  bool savedPoison = g_lib.poison; g_lib.poison = false; // only counting here
  g_lib.cap_bytes = 8L << 30;
  Outcome o = runParse(*b, w, cf, po);
  g_lib.poison = savedPoison;
  wk.bytes = g_lib.bytes_requested - b0;
  wk.searches = o.hook.tab_searches; wk.collisions = o.hook.tab_collisions; wk.sets = o.hook.n_sets; wk.cores = o.hook.n_set_cores;
  wk.hits = o.hook.n_goto_successes; wk.triples = o.hook.n_set_term_lookaheads; wk.toks = o.hook.n_toks; wk.rc = o.rc; wk.tree = o.root; wk.nerr = o.errs.size();
  b->destroy(); delete b;
  return true;
}

Verdict runC18(const Case &cs) {
  Verdict v;
  if (cs.inputs.empty()) { v.st = V_DISCARD; return v; }
  long n = cs.P("n", 1000);
  std::vector<int> w0 = assemble(cs, 64), w1 = assemble(cs, n), w2 = assemble(cs, 2 * n);
  // real C code is not homogeneous (declarations first, function bodies later): the doubled input is the window twice,
  // which is again a translation unit
  if (cs.P("family") == 4) { w2 = w1; w2.insert(w2.end(), w1.begin(), w1.end()); }
  Work a, b, c;
  if (!measure(cs, w0, a, v) || !measure(cs, w1, b, v) || !measure(cs, w2, c, v)) return v;
  v.parses = 3;
  std::string info = " [family " + std::to_string(cs.P("family")) + " la=" + std::to_string(cs.P("la")) + " tokens " + std::to_string(w1.size()) + " -> " + std::to_string(w2.size()) +
                     "] searches " + std::to_string(b.searches) + " -> " + std::to_string(c.searches) + ", bytes " + std::to_string(b.bytes) + " -> " + std::to_string(c.bytes) +
                     ", collisions " + std::to_string(b.collisions) + " -> " + std::to_string(c.collisions) + ", sets " + std::to_string(b.sets) + " -> " + std::to_string(c.sets) +
                     ", goto cache hits " + std::to_string(b.hits) + " -> " + std::to_string(c.hits);
  if (cs.P("freetree")) {
    // replay of the listed finding: yaep_free_tree on the tree of the 2n input, in a grandchild
    pid_t pid = fork();
    if (pid == 0) {
      reattachReports();
      Binding *bb = newCBinding(); bb->create();
      GramDef gd; gd.use_text = true; gd.text = cs.P("family") == 4 ? ansiC().text : cs.P("family") == 3 ? chainText((int)cs.P("levels", 4)) : std::string(famText((int)cs.P("family"))); gd.strict = 1;
      defineGrammar(*bb, gd);
      Conf cf; cf.la = 1; cf.one = 1; cf.rec = 0; cf.freemode = 0;
      ParseOpts po; po.analyse_tree = false;
      g_lib.poison = false; g_lib.cap_bytes = 8L << 30;
      Outcome o = runParse(*bb, w2, cf, po); // frees the tree through yaep_free_tree
      _exit(o.rc == 0 && o.t_live_after_free == 0 ? 0 : 3);
    }
    int status = 0;
    waitpid(pid, &status, 0);
    if (!(WIFEXITED(status) && WEXITSTATUS(status) == 0)) {
      if (kfListed("KF-C13-free-tree-deep-recursion")) { v.known = "KF-C13-free-tree-deep-recursion"; v.st = V_KNOWN; v.labels.insert("attributed:KF-C13-free-tree-deep-recursion"); return v; }
      v.fail("yaep_free_tree crashed on the tree of a " + std::to_string(w2.size()) + "-token input (stack overflow: it recurses once per tree level)");
      return v;
    }
  }
  if (cs.P("family") == 4) {
    // windows of real code: a declaration of thousands of tokens at the start makes the three inputs coincide
    double r = (double)w2.size() / (double)std::max<size_t>(1, w1.size());
    if (w1.size() < 4 * w0.size() || r < 1.9) { v.st = V_DISCARD; v.labels.insert("discard:ansi-c-window-not-doubling"); return v; }
    if ((double)c.sets > 0.6 * (double)w2.size()) { v.fail("more than 60% of the tokens of C code produce a new Earley set" + info); return v; }
  }
  if (a.rc || b.rc || c.rc || !b.tree || !c.tree || b.nerr || c.nerr) { v.fail("the generated input of a deterministic family is not parsed as a sentence" + info); return v; }
  if (FILE *df = getenv("VERIF_C18_PRINT") ? fopen(getenv("VERIF_C18_PRINT"), "a") : nullptr) { fprintf(df, "C18DATA fam=%ld L=%ld la=%ld n=%zu spt=%.2f bpt=%.1f cps=%.3f sets/tok=%.3f cores=%ld hits/tok=%.3f | 2n: spt=%.2f bpt=%.1f cps=%.3f\n", cs.P("family"), cs.P("levels"), cs.P("la"), w1.size(),
      (double)b.searches / w1.size(), (double)(b.bytes - a.bytes) / w1.size(), (double)b.collisions / (b.searches + 1), (double)b.sets / w1.size(), b.cores, (double)b.hits / w1.size(),
      (double)c.searches / w2.size(), (double)(c.bytes - a.bytes) / w2.size(), (double)c.collisions / (c.searches + 1)); fclose(df); }
  double tr = (double)w2.size() / (double)w1.size(); // the real length ratio (about 2)
  if (FILE *df = getenv("VERIF_C18_PRINT") ? fopen(getenv("VERIF_C18_PRINT"), "a") : nullptr) {
    fprintf(df, "C18GROW fam=%ld L=%ld la=%ld n=%zu tr=%.3f gs/tr=%.3f gb/tr=%.3f gc=%.3f\n", cs.P("family"), cs.P("levels"), cs.P("la"), w1.size(), tr,
            (double)(c.searches - a.searches) / std::max(1.0, (double)(b.searches - a.searches)) / tr, (double)(c.bytes - a.bytes) / std::max(1.0, (double)(b.bytes - a.bytes)) / tr,
            (double)(c.collisions + 1) / (double)(b.collisions + 1) / tr);
    fclose(df);
  }
  if (getenv("VERIF_C18_CALIBRATE")) { v.nontrivial = true; return v; } // data collection only (development)
  auto grow = [&](long x0, long x1, long x2) { double d = (double)(x1 - x0); return d <= 0 ? 0.0 : (double)(x2 - x0) / d; };
  double gs = grow(a.searches, b.searches, c.searches), gb = grow(a.bytes, b.bytes, c.bytes);
  // thresholds: calibrated on the unchanged tree (observed <= 2.1 x for searches, <= 2.3 x for bytes because containers grow by 1.5 x steps)
  // slack for the step-wise growth of containers (1.5x steps): half of the constant part
  if ((double)(c.searches - a.searches) > 2.2 * tr * (double)(b.searches - a.searches) + 2000.0) { v.fail("hash-table searches grow faster than the input: x" + std::to_string(gs) + " for x" + std::to_string(tr) + " tokens" + info); return v; }
  if ((double)(c.bytes - a.bytes) > 2.2 * tr * (double)(b.bytes - a.bytes) + 0.5 * (double)a.bytes) { v.fail("bytes requested from the allocator grow faster than the input: x" + std::to_string(gb) + " for x" + std::to_string(tr) + " tokens" + info); return v; }
  if (c.searches > 0 && (double)c.collisions > 2.0 * (double)c.searches) { v.fail("more than 2 collisions per hash-table search" + info); return v; }
  // absolute sanity bounds; the per-token constant depends on the size of the grammar (a set of an L-level chain holds O(L) situations)
  // (calibration on the unchanged tree, 3000 cases: families 0-3 <= 9.5 searches and <= 451 bytes per token at n >= 1000, <= 12.8 / 901 for a
  // 16-level chain at n = 1000; ANSI C <= 29.4 / 1678 at lookahead 2)
  double L = (double)cs.P("levels", 0), maxSpt = 14.0 + 1.0 * L, maxBpt = 600.0 + 60.0 * L;
  if (cs.P("family") == 4) { maxSpt = 50.0; maxBpt = 3000.0; }
  if ((double)c.searches > maxSpt * (double)w2.size()) { v.fail("more than " + std::to_string((int)maxSpt) + " hash-table searches per token" + info); return v; }
  if ((double)(c.bytes - a.bytes) > maxBpt * (double)w2.size()) { v.fail("more than " + std::to_string((int)maxBpt) + " bytes requested per token" + info); return v; }
  // identical sets are found again rather than rebuilt: the number of distinct sets stays far below the number of tokens
  // identical sets are found again rather than rebuilt: set cores (the sets without distances) do not grow with the input,
  // there is never more than one new set per token, and where whole sets repeat (statement family) they come from the goto cache
  info += ", set cores " + std::to_string(b.cores) + " -> " + std::to_string(c.cores);
  // (precedence chains: the core after an operand depends on which levels have an open left operand, i.e. on a subset of
  // the levels chosen by the operators seen so far; random operator sequences keep meeting new subsets, so the number of
  // cores creeps up with the input there.  What sharing guarantees is that it stays a small fraction of the positions.)
  if (cs.P("family") >= 3) {
    if ((double)c.cores > 0.25 * (double)w2.size() + 50.0) { v.fail("more than a quarter of the token positions produce a new set core (set cores are rebuilt instead of found again)" + info); return v; }
  } else
  if (c.cores > b.cores + 8) { v.fail("distinct set cores grow with the input (identical sets are rebuilt instead of found again)" + info); return v; }
  if (c.sets > (long)w2.size() + 3) { v.fail("more distinct Earley sets than tokens" + info); return v; }
  // statement family: the sets inside repeated statements are identical and must be found in the set table
  if (cs.P("family") == 2 && (double)c.sets > 0.75 * (double)w2.size()) { v.fail("more than 75% of the tokens produce a new Earley set on an input made of a few repeated statements" + info); return v; }
  if (c.hits > 0) v.labels.insert("goto-cache-hits");
  v.labels.insert("family:" + std::to_string(cs.P("family")));
  if (cs.P("family") == 3) v.labels.insert(cs.P("levels") >= 10 ? "chain-levels:>=10" : cs.P("levels") >= 6 ? "chain-levels:6-9" : "chain-levels:2-5");
  v.labels.insert("la:" + std::to_string(cs.P("la")));
  v.labels.insert("n:" + std::to_string(n));
  if (n >= 4000) v.nontrivial = true;
  return v;
}

} // namespace

void dbgPerf(const Case &cs) { Verdict v = runC18(cs); printf("verdict %d %s\n", v.st, v.msg.c_str()); }

extern const PropDef g_props_perf[] = {
    {"C18", genC18, runC18,
     "deterministic left-recursive families (comma list; E/T/F expressions with unary minus and parentheses; statements with while-blocks and "
     "expressions; precedence chains of 2-16 left-recursive levels as in the expression part of a C grammar; 10%: the ANSI C grammar of the repository's test41 on "
     "windows of the 75898-token stream of the repository's test/test.i cut at external declarations, doubled by repeating the window) x lookahead{0,1,2} x n in {1k..32k, 6 % 64k/128k} (thorough ..256k) x random fragment pools recombined pseudo-randomly into inputs of n and 2n "
     "tokens; work units measured inside yaep_parse: bytes requested from the allocator (redirected malloc), hash-table searches and collisions "
     "(the library's own counters through hook H4), distinct sets, goto-cache hits; oracle (constant part W(64) removed): searches and bytes grow <= 2.2x "
     "the token ratio plus a fixed slack (hash tables and arrays grow in 1.5x steps and rehash: calibrated worst case 1.77x), <= 14 (+1 per chain level; ANSI C 50) searches and <= 600 (+60 per chain level; ANSI C 3000) bytes per token, <= 2 collisions per search, distinct set cores do not grow with n (precedence chains: stay below a quarter of the positions), at most one "
     "new set per token, distinct sets <= 75% of tokens on inputs made of repeated statements. Non-trivial: n >= 4000.",
     120},
};
extern const int g_nprops_perf = 1;

} // namespace vf
