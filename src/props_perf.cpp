// C18: parsing work grows near-linearly on deterministic grammars (machine independent work units).
#include "props.hpp"
#include <sys/wait.h>
#include <unistd.h>

namespace vf {
namespace {

const char *famText(int f) {
  switch (f) {
  default:
  case 0: return "TERM;\nL : L ',' 'a' # l (0 2)\n | 'a' # 0\n ;\n";
  case 1: return "TERM;\nE : E '+' T # plus (0 2)\n | E '-' T # minus (0 2)\n | T # 0\n ;\nT : T '*' F # mul (0 2)\n | F # 0\n ;\nF : 'a' # 0\n | '(' E ')' # 1\n | '-' F # neg (1)\n ;\n";
  case 2: return "TERM;\nP : P S # p (0 1)\n | S # 0\n ;\nS : 'i' '=' E ';' # asg (0 2)\n | 'w' '(' E ')' '{' P '}' # wh (2 5)\n | '{' '}' # emp\n ;\nE : E '+' T # plus (0 2)\n | T # 0\n ;\nT : 'i' # 0\n | 'n' # 0\n | '(' E ')' # 1\n ;\n";
  }
}
// one sentence fragment of family f built from choices (bounded nesting)
void genExpr(Choices &c, int depth, std::vector<int> &w) {
  int k = depth > 3 ? 0 : c.upto(9);
  if (k < 5) w.push_back('a');
  else if (k < 7) { w.push_back('('); genExpr(c, depth + 1, w); w.push_back(c.flip() ? '+' : '*'); genExpr(c, depth + 1, w); w.push_back(')'); }
  else if (k < 8) { w.push_back('-'); genExpr(c, depth + 1, w); }
  else { genExpr(c, depth + 1, w); w.push_back("+-*"[c.upto(2)]); genExpr(c, depth + 1, w); }
}
void genStmt(Choices &c, int depth, std::vector<int> &w) {
  int k = depth > 2 ? 0 : c.upto(9);
  auto expr = [&]() { w.push_back(c.flip() ? 'i' : 'n'); int m = c.upto(2); for (int i = 0; i < m; i++) { w.push_back('+'); if (c.chance(30)) { w.push_back('('); w.push_back('i'); w.push_back('+'); w.push_back('n'); w.push_back(')'); } else w.push_back('i'); } };
  if (k < 6) { w.push_back('i'); w.push_back('='); expr(); w.push_back(';'); }
  else if (k < 7) { w.push_back('{'); w.push_back('}'); }
  else { w.push_back('w'); w.push_back('('); expr(); w.push_back(')'); w.push_back('{'); int m = c.range(1, 3); for (int i = 0; i < m; i++) genStmt(c, depth + 1, w); w.push_back('}'); }
}

Case genC18(Choices &c, int tier) {
  Case cs;
  cs.prop = "C18";
  int f = c.upto(2);
  cs.par["family"] = f;
  cs.par["la"] = c.upto(2);
  static const int ns[] = {1000, 2000, 4000, 8000, 16000, 32000, 64000, 128000, 256000};
  cs.par["n"] = ns[c.upto(tier ? 8 : 5)];
  // a pool of fragments; the inputs of length ~n and ~2n are concatenations of them
  int nf = c.range(2, 6);
  for (int i = 0; i < nf; i++) {
    std::vector<int> w;
    if (f == 0) { int m = c.range(1, 5); for (int k = 0; k < m; k++) { if (k) w.push_back(','); w.push_back('a'); } }
    else if (f == 1) genExpr(c, 0, w);
    else genStmt(c, 0, w);
    cs.inputs.push_back(w);
  }
  cs.par["mix"] = c.upto(1000);
  return cs;
}

std::vector<int> assemble(const Case &cs, long n) {
  int f = (int)cs.P("family");
  std::vector<int> w;
  unsigned long x = (unsigned long)cs.P("mix") * 2654435761u + 12345;
  while ((long)w.size() < n) {
    x = x * 6364136223846793005UL + 1442695040888963407UL;
    const std::vector<int> &fr = cs.inputs[(x >> 33) % cs.inputs.size()];
    if (!w.empty()) { if (f == 0) w.push_back(','); else if (f == 1) w.push_back((x >> 20) & 1 ? '+' : '*'); }
    w.insert(w.end(), fr.begin(), fr.end());
  }
  return w;
}

struct Work { long bytes, searches, collisions, sets, cores, hits, triples, toks; int rc; bool tree; size_t nerr; };
bool measure(const Case &cs, const std::vector<int> &w, Work &wk, Verdict &v) {
  Binding *b = newCBinding();
  b->create();
  GramDef gd; gd.use_text = true; gd.text = famText((int)cs.P("family")); gd.strict = 1;
  if (defineGrammar(*b, gd) != 0) { v.fail(std::string("family grammar rejected: ") + b->error_message()); return false; }
  Conf cf; cf.la = (int)cs.P("la", 1); cf.one = 1; cf.rec = 0;
  cf.freemode = 1; // the tree is released by the harness: yaep_free_tree recurses once per tree level (listed finding KF-C13-free-tree-deep-recursion)
  ParseOpts po; po.analyse_tree = false;
  long b0 = g_lib.bytes_requested;
  bool savedPoison = g_lib.poison; g_lib.poison = false; // only counting here
  g_lib.cap_bytes = 8L << 30;
  Outcome o = runParse(*b, w, cf, po);
  g_lib.poison = savedPoison;
  wk.bytes = g_lib.bytes_requested - b0;
  wk.searches = o.hook.tab_searches; wk.collisions = o.hook.tab_collisions; wk.sets = o.hook.n_sets; wk.cores = o.hook.n_set_cores;
  wk.hits = o.hook.n_goto_successes; wk.triples = o.hook.n_set_term_lookaheads; wk.toks = o.hook.n_toks; wk.rc = o.rc; wk.tree = o.root; wk.nerr = o.errs.size();
  b->destroy(); delete b;
  return true;
}

Verdict runC18(const Case &cs) {
  Verdict v;
  if (cs.inputs.empty()) { v.st = V_DISCARD; return v; }
  long n = cs.P("n", 1000);
  std::vector<int> w0 = assemble(cs, 64), w1 = assemble(cs, n), w2 = assemble(cs, 2 * n);
  Work a, b, c;
  if (!measure(cs, w0, a, v) || !measure(cs, w1, b, v) || !measure(cs, w2, c, v)) return v;
  v.parses = 3;
  std::string info = " [family " + std::to_string(cs.P("family")) + " la=" + std::to_string(cs.P("la")) + " tokens " + std::to_string(w1.size()) + " -> " + std::to_string(w2.size()) +
                     "] searches " + std::to_string(b.searches) + " -> " + std::to_string(c.searches) + ", bytes " + std::to_string(b.bytes) + " -> " + std::to_string(c.bytes) +
                     ", collisions " + std::to_string(b.collisions) + " -> " + std::to_string(c.collisions) + ", sets " + std::to_string(b.sets) + " -> " + std::to_string(c.sets) +
                     ", goto cache hits " + std::to_string(b.hits) + " -> " + std::to_string(c.hits);
  if (cs.P("freetree")) {
    // replay of the listed finding: yaep_free_tree on the tree of the 2n input, in a grandchild
    pid_t pid = fork();
    if (pid == 0) {
      reattachReports();
      Binding *bb = newCBinding(); bb->create();
      GramDef gd; gd.use_text = true; gd.text = famText((int)cs.P("family")); gd.strict = 1;
      defineGrammar(*bb, gd);
      Conf cf; cf.la = 1; cf.one = 1; cf.rec = 0; cf.freemode = 0;
      ParseOpts po; po.analyse_tree = false;
      g_lib.poison = false; g_lib.cap_bytes = 8L << 30;
      Outcome o = runParse(*bb, w2, cf, po); // frees the tree through yaep_free_tree
      _exit(o.rc == 0 && o.t_live_after_free == 0 ? 0 : 3);
    }
    int status = 0;
    waitpid(pid, &status, 0);
    if (!(WIFEXITED(status) && WEXITSTATUS(status) == 0)) {
      if (kfListed("KF-C13-free-tree-deep-recursion")) { v.known = "KF-C13-free-tree-deep-recursion"; v.st = V_KNOWN; v.labels.insert("attributed:KF-C13-free-tree-deep-recursion"); return v; }
      v.fail("yaep_free_tree crashed on the tree of a " + std::to_string(w2.size()) + "-token input (stack overflow: it recurses once per tree level)");
      return v;
    }
  }
  if (a.rc || b.rc || c.rc || !b.tree || !c.tree || b.nerr || c.nerr) { v.fail("the generated input of a deterministic family is not parsed as a sentence" + info); return v; }
  if (getenv("VERIF_C18_PRINT")) fprintf(stderr, "C18DATA fam=%ld la=%ld n=%zu spt=%.2f bpt=%.1f cps=%.3f sets/tok=%.3f cores=%ld hits/tok=%.3f | 2n: spt=%.2f bpt=%.1f cps=%.3f\n", cs.P("family"), cs.P("la"), w1.size(),
      (double)b.searches / w1.size(), (double)(b.bytes - a.bytes) / w1.size(), (double)b.collisions / (b.searches + 1), (double)b.sets / w1.size(), b.cores, (double)b.hits / w1.size(),
      (double)c.searches / w2.size(), (double)(c.bytes - a.bytes) / w2.size(), (double)c.collisions / (c.searches + 1));
  double tr = (double)w2.size() / (double)w1.size(); // the real length ratio (about 2)
  auto grow = [&](long x0, long x1, long x2) { double d = (double)(x1 - x0); return d <= 0 ? 0.0 : (double)(x2 - x0) / d; };
  double gs = grow(a.searches, b.searches, c.searches), gb = grow(a.bytes, b.bytes, c.bytes);
  // thresholds: calibrated on the unchanged tree (observed <= 2.1 x for searches, <= 2.3 x for bytes because containers grow by 1.5 x steps)
  // slack for the step-wise growth of containers (1.5x steps): half of the constant part
  if ((double)(c.searches - a.searches) > 2.2 * tr * (double)(b.searches - a.searches) + 2000.0) { v.fail("hash-table searches grow faster than the input: x" + std::to_string(gs) + " for x" + std::to_string(tr) + " tokens" + info); return v; }
  if ((double)(c.bytes - a.bytes) > 2.2 * tr * (double)(b.bytes - a.bytes) + 0.5 * (double)a.bytes) { v.fail("bytes requested from the allocator grow faster than the input: x" + std::to_string(gb) + " for x" + std::to_string(tr) + " tokens" + info); return v; }
  if (c.searches > 0 && (double)c.collisions > 3.0 * (double)c.searches) { v.fail("more than 3 collisions per hash-table search" + info); return v; }
  if ((double)c.searches > 20.0 * (double)w2.size()) { v.fail("more than 20 hash-table searches per token" + info); return v; }
  if ((double)(c.bytes - a.bytes) > 800.0 * (double)w2.size()) { v.fail("more than 800 bytes requested per token" + info); return v; }
  // identical sets are found again rather than rebuilt: the number of distinct sets stays far below the number of tokens
  // identical sets are found again rather than rebuilt: set cores (the sets without distances) do not grow with the input,
  // there is never more than one new set per token, and where whole sets repeat (statement family) they come from the goto cache
  info += ", set cores " + std::to_string(b.cores) + " -> " + std::to_string(c.cores);
  if (c.cores > b.cores + 8) { v.fail("distinct set cores grow with the input (identical sets are rebuilt instead of found again)" + info); return v; }
  if (c.sets > (long)w2.size() + 3) { v.fail("more distinct Earley sets than tokens" + info); return v; }
  // statement family: the sets inside repeated statements are identical and must be found in the set table
  if (cs.P("family") == 2 && (double)c.sets > 0.75 * (double)w2.size()) { v.fail("more than 75% of the tokens produce a new Earley set on an input made of a few repeated statements" + info); return v; }
  if (c.hits > 0) v.labels.insert("goto-cache-hits");
  v.labels.insert("family:" + std::to_string(cs.P("family")));
  v.labels.insert("la:" + std::to_string(cs.P("la")));
  v.labels.insert("n:" + std::to_string(n));
  if (n >= 4000) v.nontrivial = true;
  return v;
}

} // namespace

void dbgPerf(const Case &cs) { Verdict v = runC18(cs); printf("verdict %d %s\n", v.st, v.msg.c_str()); }

extern const PropDef g_props_perf[] = {
    {"C18", genC18, runC18,
     "deterministic left-recursive families (comma list; E/T/F expressions with unary minus and parentheses; statements with while-blocks and "
     "expressions) x lookahead{0,1,2} x n in {1k..32k} (thorough ..256k) x random fragment pools recombined pseudo-randomly into inputs of n and 2n "
     "tokens; work units measured inside yaep_parse: bytes requested from the allocator (redirected malloc), hash-table searches and collisions "
     "(the library's own counters through hook H4), distinct sets, goto-cache hits; oracle (constant part W(64) removed): searches and bytes grow <= 2.2x "
     "the token ratio plus a fixed slack (hash tables and arrays grow in 1.5x steps and rehash: calibrated worst case 1.77x), <= 20 searches and <= 800 bytes per token, <= 3 collisions per search, distinct set cores do not grow with n, at most one "
     "new set per token, distinct sets <= 75% of tokens on inputs made of repeated statements. Non-trivial: n >= 4000.",
     120},
};
extern const int g_nprops_perf = 1;

} // namespace vf
