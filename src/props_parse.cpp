// C01-C05: recognition, single tree, all-parses DAG, cost flag, ambiguity flag.
#include "props.hpp"
#include <fcntl.h>
#include <unistd.h>

namespace vf {

// ---------------------------------------------------------------- shared generator
// five regimes (the fifth, chains of nonterminals, takes a quarter of the first's share): small grammars and short inputs; larger alphabets, more and longer rules, longer inputs; a list of
// phrases of a small grammar (repetition of the same phrase in different places of the parse list); a sequence of
// ambiguous components over a tiny alphabet
static Case genParseCase(Choices &c, int tier, const char *prop, GramOpts o, int nInputs, int sentencePct) {
  Case cs;
  cs.prop = prop;
  if (tier) { o.maxT = std::max(o.maxT, 4); o.maxN = std::max(o.maxN, 5); o.extraRules += 2; }
  int maxLen = tier ? 14 : 9;
  int regime = 0;
  { int tot = 0; for (int w : o.regimeW) tot += w; int r = c.upto(tot - 1); for (int k = 0; k < 5; k++) { if (r < o.regimeW[k]) { regime = k; break; } r -= o.regimeW[k]; } }
  if (const char *fr = getenv("VERIF_FORCE_REGIME")) regime = atoi(fr); // development only: measure one regime
  if (regime == 1) { o.maxT = std::max(o.maxT, 6); o.maxN = std::max(o.maxN, 7); o.extraRules = std::max(o.extraRules, 8); o.maxRhs = std::max(o.maxRhs, 4); maxLen = tier ? 22 : 16; }
  GramDef gd;
  bool seqInner = regime == 2 && (c.chance(40) || getenv("VERIF_FORCE_SEQINNER")); // a list of phrases of a sequence grammar: cores recur with other distances
  bool tailInner = seqInner && (c.chance(50) || getenv("VERIF_FORCE_TAILINNER")); // ... or of items with a nullable tail
  gd.raw = regime == 4 ? genChainGrammar(c, o) : tailInner ? genTailGrammar(c, o) : (regime == 3 || seqInner) ? genSeqGrammar(c, o) : genGrammar(c, o);
  if (regime == 4) maxLen = tier ? 18 : 14;
  if (regime == 3) maxLen = tier ? 12 : 9;
  if (tailInner) { maxLen = tier ? 16 : 13; nInputs += 3; }
  WrapInfo wi;
  if (regime == 2) wi = wrapList(c, gd.raw, o);
  gd.strict = c.flip();
  // prefer a strictness under which the reference accepts the grammar
  if (!classify(gd.raw, gd.strict).empty() && classify(gd.raw, !gd.strict).empty()) gd.strict = !gd.strict;
  // 15 %: the same grammar is handed over as a description text (yaep_parse_grammar) instead of through the callbacks
  if (c.chance(15)) { std::string t; if (simpleText(gd.raw, t)) { gd.use_text = true; gd.text = t; } }
  cs.grams.push_back(gd);
  Gram g;
  if (!toGram(gd.raw, g) || !classify(gd.raw, gd.strict).empty()) return cs; // run() discards it
  std::vector<int> ml = minLen(g);
  int phraseSym = -1, sepTerm = -1;
  if (wi.shape) {
    phraseSym = g.symByName(wi.inner);
    if (!wi.sep.empty()) sepTerm = g.symByName(wi.sep);
  }
  for (int k = 0; k < nInputs; k++) {
    int kind = c.chance(sentencePct) ? 0 : (c.flip() ? 1 : 2);
    cs.inputs.push_back(toCodes(g, genInputIdx(c, g, ml, maxLen, kind, phraseSym, sepTerm)));
  }
  return cs;
}

struct Ctx {
  Gram g;
  Info in;
  Feat ft;
  bool ok = false;
};
static bool prep(const Case &cs, Ctx &x, Verdict &v) {
  if (cs.grams.empty()) { v.st = V_DISCARD; v.msg = "no grammar"; return false; }
  const GramDef &gd = cs.grams[0];
  if (!toGram(gd.raw, x.g) || !classify(gd.raw, gd.strict).empty()) {
    v.st = V_DISCARD; v.msg = "grammar not acceptable by the reference classifier"; v.labels.insert("discard:grammar-rejected");
    for (int d : classify(gd.raw, gd.strict)) v.labels.insert("discard:grammar-rejected-code-" + std::to_string(d));
    return false;
  }
  x.in = analyse(x.g);
  x.ft = features(x.g, x.in);
  if (x.ft.nullable) v.labels.insert("g:nullable");
  if (x.ft.unit) v.labels.insert("g:unit-rule");
  if (x.ft.leftrec) v.labels.insert("g:left-recursion");
  if (x.ft.hiddenleft) v.labels.insert("g:hidden-left-recursion");
  if (x.ft.rightrec) v.labels.insert("g:right-recursion");
  if (x.ft.err) v.labels.insert("g:error-rules");
  if (x.ft.dupRhs) v.labels.insert("g:duplicate-rhs");
  v.labels.insert(gd.strict ? "g:strict" : "g:non-strict");
  if (gd.use_text) v.labels.insert("g:given-as-description-text");
  return true;
}
static std::string inputStr(const std::vector<int> &codes) {
  std::string s = "[";
  for (int c : codes) s += std::to_string(c) + " ";
  return s + "]";
}
// fresh object, defined; nullptr + verdict set if the library refuses the grammar
static Binding *freshDefined(const Case &cs, Verdict &v) {
  Binding *b = newCBinding();
  if (!b->create()) { v.fail("yaep_create_grammar returned NULL"); return nullptr; }
  int rc = defineGrammar(*b, cs.grams[0]);
  if (rc != 0) {
    // the reference accepts the grammar but the library does not: that is C10's business
    v.st = V_DISCARD; v.msg = "library rejected a grammar the reference accepts: rc=" + std::to_string(rc) + " " + b->error_message();
    v.labels.insert("discard:definition-disagreement");
    return nullptr;
  }
  return b;
}
static bool startHasErrorInitialRule(const Gram &g) {
  for (auto &r : g.rules) if (r.lhs == g.start && !r.rhs.empty() && r.rhs[0] == g.errT) return true;
  return false;
}

// reference verdict with self check (Earley vs chart)
static int refVerdict(const Ctx &x, const std::vector<int> &w, Enum &e, Verdict &v) {
  int re = refParse(x.g, x.in, w);
  bool s1 = re < 0, s2 = e.sentence();
  if (s1 != s2) { v.st = V_INCONCLUSIVE; v.msg = "REFERENCE-DISAGREE: Earley and chart differ"; return -2; }
  return re;
}

// ================================================================= C01
static Case genC01(Choices &c, int tier) {
  GramOpts o; o.errorPct = 25; o.ambiguityBias = 10; { int w[5] = {25, 20, 30, 10, 15}; for (int k = 0; k < 5; k++) o.regimeW[k] = w[k]; }
  return genParseCase(c, tier, "C01", o, 3, 50);
}
static Verdict runC01(const Case &cs) {
  Verdict v; Ctx x;
  if (!prep(cs, x, v)) return v;
  bool errInit = startHasErrorInitialRule(x.g);
  for (auto &codes : cs.inputs) {
    std::vector<int> w;
    if (!toIdx(x.g, codes, w)) { v.st = V_DISCARD; v.msg = "input uses undeclared code"; return v; }
    Enum e(x.g, w, 2000);
    int re = refVerdict(x, w, e, v);
    if (re == -2) return v;
    bool sent = re < 0;
    v.labels.insert(sent ? "in:sentence" : "in:non-sentence");
    if (!sent && re == (int)w.size()) v.labels.insert("in:error-at-eof");
    if (w.empty()) v.labels.insert("in:empty");
    if ((x.ft.nullable || x.ft.leftrec || x.ft.unit || x.ft.dupRhs) && w.size() >= 2) v.nontrivial = true;
    for (int la = 0; la < 3; la++) for (int one = 0; one < 2; one++) for (int cost = 0; cost < 2; cost++) for (int rec = 0; rec < 2; rec++) {
      if (rec && !sent && errInit) v.labels.insert("g:error-initial-start-rule(no implicit rule)");
      Binding *b = freshDefined(cs, v);
      if (!b) return v;
      Conf cf; cf.la = la; cf.one = one; cf.cost = cost; cf.rec = rec;
      ParseOpts po; po.analyse_tree = false;
      Outcome o = runParse(*b, codes, cf, po);
      v.parses++;
      if (o.exploded()) { v.labels.insert(o.explosionLabel()); b->destroy(); delete b; continue; } // harness limits (listed findings)
      std::string where = " [" + cf.str() + " input=" + inputStr(codes) + " sentence=" + std::to_string(sent) + "] got " + o.str();
      if (o.rc != 0) { v.fail("yaep_parse returned " + std::to_string(o.rc) + where); return v; }
      if (!rec) {
        if (sent && (!o.root || !o.errs.empty())) { v.fail("sentence not accepted" + where); return v; }
        if (!sent && (o.root || o.errs.size() != 1)) { v.fail("non-sentence: expected NULL root and exactly one syntax_error call" + where); return v; }
      } else {
        if (sent != o.errs.empty()) { v.fail("recovery on: syntax_error calls do not match the verdict" + where); return v; }
      }
      b->destroy(); delete b;
    }
  }
  return v;
}

// ================================================================= C02 / C03 / C05 share the enumeration
struct RefTrees {
  std::set<Tr> all;       // distinct translations (with own-cost annotation)
  long nder = 0;          // number of derivations (capped by the enumeration limit)
  bool overflow = false;
  long minCost = 0;
  std::set<Tr> argmin;
};
static RefTrees enumerate(const Ctx &x, Enum &e, const std::vector<int> &w) {
  RefTrees r;
  const Enum::VT &v = e.symEnum(x.g.start, 0, w.size());
  r.overflow = e.overflow;
  r.nder = v.size();
  r.all.insert(v.begin(), v.end());
  if (!r.all.empty()) {
    r.minCost = LONG_MAX;
    for (auto &t : r.all) r.minCost = std::min(r.minCost, t.cost);
    for (auto &t : r.all) if (t.cost == r.minCost) r.argmin.insert(t);
  }
  return r;
}
static std::string setStr(const std::set<Tr> &s, size_t lim = 6) {
  std::string o = "{";
  size_t k = 0;
  for (auto &t : s) { if (k++ >= lim) { o += "..."; break; } o += t.s + "#" + std::to_string(t.cost) + "; "; }
  return o + "}(" + std::to_string(s.size()) + ")";
}
static bool usesInterestingTranslation(const Gram &g) {
  for (auto &r : g.rules) {
    if (!r.has_anode) { if (!r.rhs.empty()) return true; continue; }
    if (r.transl.size() != r.rhs.size()) return true;
    for (size_t i = 0; i < r.transl.size(); i++) if (r.transl[i] != (int)i) return true;
  }
  return false;
}

static Case genC02(Choices &c, int tier) {
  GramOpts o; o.ambiguityBias = 10; { int w[5] = {25, 15, 20, 30, 10}; for (int k = 0; k < 5; k++) o.regimeW[k] = w[k]; }
  return genParseCase(c, tier, "C02", o, 3, 85);
}
static Verdict runC02(const Case &cs) {
  Verdict v; Ctx x;
  if (!prep(cs, x, v)) return v;
  for (auto &codes : cs.inputs) {
    std::vector<int> w;
    if (!toIdx(x.g, codes, w)) { v.st = V_DISCARD; return v; }
    Enum e(x.g, w, 20000);
    int re = refVerdict(x, w, e, v);
    if (re == -2) return v;
    if (re >= 0) { v.labels.insert("in:non-sentence(skipped)"); continue; }
    RefTrees rt = enumerate(x, e, w);
    if (rt.overflow) { v.labels.insert("discard:enumeration-cap"); continue; }
    for (int pass = 0; pass < 4; pass++) {
      // passes 0-2: the three lookahead levels without the cost flag; pass 3: one parse with the cost flag at one of the
      // levels (still one tree without ALT nodes; which tree and the cost fields are C04's business)
      int la = pass < 3 ? pass : (int)(w.size() % 3);
      Binding *b = freshDefined(cs, v);
      if (!b) return v;
      Conf cf; cf.la = la; cf.one = 1; cf.cost = pass == 3; cf.rec = 0;
      Outcome o = runParse(*b, codes, cf);
      v.parses++;
      if (o.exploded()) { v.labels.insert(o.explosionLabel()); b->destroy(); delete b; continue; } // harness limits (listed findings)
      std::string where = " [" + cf.str() + " input=" + inputStr(codes) + "] got " + o.str() + " reference=" + setStr(rt.all);
      if (o.rc != 0 || !o.root || !o.errs.empty()) { v.fail("sentence not accepted" + where); return v; }
      if (!o.tree.ok) { v.fail("malformed tree: " + o.tree.problem + where); return v; }
      if (o.tree.overflow || o.tree.den.size() != 1) { v.fail("one parse requested but the result does not denote exactly one tree" + where); return v; }
      if (cf.cost) { v.labels.insert("cfg:one-parse-with-cost-flag"); b->destroy(); delete b; continue; }
      if (!rt.all.count(*o.tree.den.begin())) { v.fail("returned tree is not the translation of any derivation" + where); return v; }
      if (o.tree.has_err) { v.fail("ERROR node without error recovery" + where); return v; }
      if (usesInterestingTranslation(x.g) && o.tree.n_nodes >= 3) v.nontrivial = true;
      if (o.tree.has_nil) v.labels.insert("t:nil-node");
      if (rt.all.size() > 1) v.labels.insert("t:choice-among-several");
      b->destroy(); delete b;
    }
  }
  return v;
}

// ================================================================= C03
static Case genC03(Choices &c, int tier) {
  GramOpts o; o.ambiguityBias = 35; { int w[5] = {25, 15, 20, 30, 10}; for (int k = 0; k < 5; k++) o.regimeW[k] = w[k]; }
  return genParseCase(c, tier, "C03", o, 3, 90);
}
static Verdict runC03(const Case &cs) {
  Verdict v; Ctx x;
  if (!prep(cs, x, v)) return v;
  for (auto &codes : cs.inputs) {
    std::vector<int> w;
    if (!toIdx(x.g, codes, w)) { v.st = V_DISCARD; return v; }
    Enum e(x.g, w, 20000);
    int re = refVerdict(x, w, e, v);
    if (re == -2) return v;
    if (re >= 0) { v.labels.insert("in:non-sentence(skipped)"); continue; }
    RefTrees rt = enumerate(x, e, w);
    if (rt.overflow || rt.all.size() > 3000) { v.labels.insert("discard:enumeration-cap"); continue; }
    for (int la = 0; la < 3; la++) {
      Binding *b = freshDefined(cs, v);
      if (!b) return v;
      Conf cf; cf.la = la; cf.one = 0; cf.cost = 0; cf.rec = 0;
      yaep_verif.track = 1;
      Outcome o = runParse(*b, codes, cf);
      yaep_verif.track = 0;
      v.parses++;
      if (o.exploded()) { v.labels.insert(o.explosionLabel()); b->destroy(); delete b; continue; } // harness limits (listed findings)
      std::string where = " [" + cf.str() + " input=" + inputStr(codes) + "] got " + o.str() + " reference=" + setStr(rt.all);
      if (o.rc != 0 || !o.root || !o.errs.empty()) { v.fail("sentence not accepted" + where); return v; }
      if (!o.tree.ok) { v.fail("malformed DAG: " + o.tree.problem + where); return v; }
      if (o.tree.overflow) { v.labels.insert("discard:denotation-cap"); continue; }
      for (auto &t : o.tree.den) if (!rt.all.count(t)) { v.fail("spurious tree denoted by the DAG: " + t.s + where); return v; }
      bool missing = false; std::string miss;
      for (auto &t : rt.all) if (!o.tree.den.count(t)) { missing = true; miss = t.s; break; }
      bool attributable = o.hook.n_reuse_of_copied > 0 || o.hook.n_skipped_origin > 0;
      if (missing) {
        if (attributable && kfListed("KF-C03-incomplete-dag")) {
          v.known = "KF-C03-incomplete-dag";
          if (v.st == V_PASS) v.st = V_KNOWN;
          v.labels.insert("attributed:KF-C03-incomplete-dag");
        } else { v.fail("translation missing from the DAG: " + miss + (attributable ? " (H1 events present)" : " (no H1 event)") + where); return v; }
      }
      if (rt.all.size() >= 2 && !attributable) { v.nontrivial = true; v.labels.insert("t:ambiguous-compared-exactly"); }
      if (rt.all.size() >= 2 && attributable) v.labels.insert("t:ambiguous-with-H1-event");
      if (o.tree.n_shared) v.labels.insert("t:shared-node");
      if (o.tree.n_alt) v.labels.insert("t:alt-nodes");
      b->destroy(); delete b;
    }
  }
  return v;
}

// ================================================================= C04
static Case genC04(Choices &c, int tier) {
  GramOpts o; o.ambiguityBias = 35; { int w[5] = {15, 10, 15, 50, 10}; for (int k = 0; k < 5; k++) o.regimeW[k] = w[k]; }
  return genParseCase(c, tier, "C04", o, 2, 92);
}
static Verdict runC04(const Case &cs) {
  Verdict v; Ctx x;
  if (!prep(cs, x, v)) return v;
  for (auto &codes : cs.inputs) {
    std::vector<int> w;
    if (!toIdx(x.g, codes, w)) { v.st = V_DISCARD; return v; }
    Enum e(x.g, w, 20000);
    int re = refVerdict(x, w, e, v);
    if (re == -2) return v;
    if (re >= 0) { v.labels.insert("in:non-sentence(skipped)"); continue; }
    RefTrees rt = enumerate(x, e, w);
    if (rt.overflow || rt.all.size() > 3000) { v.labels.insert("discard:enumeration-cap"); continue; }
    for (int la = 0; la < 3; la++) {
      // U: what the all-parses DAG denotes without the cost flag (pruning starts from it)
      std::set<Tr> U; bool attributable = false;
      {
        Binding *b = freshDefined(cs, v);
        if (!b) return v;
        Conf cf; cf.la = la; cf.one = 0; cf.cost = 0;
        yaep_verif.track = 1;
        Outcome o = runParse(*b, codes, cf);
        yaep_verif.track = 0;
        v.parses++;
        if (o.exploded()) { v.labels.insert(o.explosionLabel()); b->destroy(); delete b; continue; } // harness limits (listed findings)
        std::string where = " [" + cf.str() + " input=" + inputStr(codes) + "] got " + o.str();
        if (o.rc != 0 || !o.root) { v.fail("sentence not accepted" + where); return v; }
        if (!o.tree.ok) { v.fail("malformed DAG: " + o.tree.problem + where); return v; }
        if (o.tree.overflow) { v.labels.insert("discard:denotation-cap"); b->destroy(); delete b; continue; }
        U = o.tree.den;
        attributable = o.hook.n_reuse_of_copied > 0 || o.hook.n_skipped_origin > 0;
        // last clause of the property: without the flag the field is the rule's own cost
        for (auto &t : U) if (!rt.all.count(t)) { v.fail("without the cost flag a denoted tree (with its cost fields) is not a translation: " + t.s + where); return v; }
        b->destroy(); delete b;
      }
      long mU = LONG_MAX; std::set<Tr> argU;
      for (auto &t : U) mU = std::min(mU, t.cost);
      for (auto &t : U) if (t.cost == mU) argU.insert(t);
      for (int one = 0; one < 2; one++) for (int fm = 0; fm < 2; fm++) {
        Binding *b = freshDefined(cs, v);
        if (!b) return v;
        Conf cf; cf.la = la; cf.one = one; cf.cost = 1; cf.freemode = fm;
        Outcome o = runParse(*b, codes, cf);
        v.parses++;
        if (o.exploded()) { v.labels.insert(o.explosionLabel()); b->destroy(); delete b; continue; } // harness limits (listed findings)
        std::string where = " [" + cf.str() + " input=" + inputStr(codes) + "] got " + o.str() + " reference all=" + setStr(rt.all) + " argmin=" + setStr(rt.argmin);
        if (o.rc != 0 || !o.root || !o.errs.empty()) { v.fail("sentence not accepted" + where); return v; }
        if (!o.tree.ok) { v.fail("malformed result: " + o.tree.problem + where); return v; }
        if (o.tree.overflow) { v.labels.insert("discard:denotation-cap"); b->destroy(); delete b; continue; }
        if (o.t_bad_free) { v.fail("parse_free misuse under the cost flag: " + o.t_bad + where); return v; }
        // (a) exact w.r.t. the DAG the pruning starts from
        for (auto &t : o.tree.den) {
          if (!rt.all.count(t)) { v.fail("cost flag: denoted tree (own costs derived from the cost fields) is not a translation: " + t.s + where); return v; }
          if (!argU.count(t)) { v.fail("cost flag: denoted tree is not of minimal cost among the trees of the unpruned DAG: " + t.s + "#" + std::to_string(t.cost) + " min=" + std::to_string(mU) + where); return v; }
        }
        if (one) { if (o.tree.den.size() != 1) { v.fail("cost flag + one parse: result does not denote exactly one tree" + where); return v; } }
        else for (auto &t : argU) if (!o.tree.den.count(t)) { v.fail("cost flag: a minimal-cost tree of the unpruned DAG is missing: " + t.s + where); return v; }
        if (o.tree.root_cost >= 0 && !o.tree.den.empty() && o.tree.root_cost != o.tree.den.begin()->cost && o.tree.n_anode) { v.fail("root cost field differs from the cost of the denoted tree" + where); return v; }
        // (b) against the full reference
        bool refok = true; std::string why;
        if (mU != rt.minCost) { refok = false; why = "minimum over the DAG " + std::to_string(mU) + " != reference minimum " + std::to_string(rt.minCost); }
        else if (!one) for (auto &t : rt.argmin) if (!o.tree.den.count(t)) { refok = false; why = "minimal translation missing: " + t.s; break; }
        if (!refok) {
          if (attributable && kfListed("KF-C03-incomplete-dag")) { v.known = "KF-C03-incomplete-dag"; if (v.st == V_PASS) v.st = V_KNOWN; v.labels.insert("attributed:KF-C03-incomplete-dag"); }
          else { v.fail("cost flag: " + why + where); return v; }
        }
        if (rt.all.size() >= 2) {
          std::set<long> costs; for (auto &t : rt.all) costs.insert(t.cost);
          if (costs.size() >= 2) { v.labels.insert("c:different-totals"); v.nontrivial = true; }
          if (rt.argmin.size() >= 2) { v.labels.insert("c:tie"); v.nontrivial = true; }
        } else { v.labels.insert("c:unambiguous-under-flag"); if (o.tree.n_anode >= 2) v.nontrivial = true; }
        if (o.tree.n_shared) v.labels.insert("c:shared-node");
        if (o.t_free > 0 && fm == 0) v.labels.insert("c:pruned-blocks-freed");
        b->destroy(); delete b;
      }
    }
  }
  return v;
}

// ================================================================= C05
static Case genC05(Choices &c, int tier) {
  GramOpts o; o.ambiguityBias = 25; { int w[5] = {20, 10, 15, 45, 10}; for (int k = 0; k < 5; k++) o.regimeW[k] = w[k]; }
  return genParseCase(c, tier, "C05", o, 3, 90);
}
static Verdict runC05(const Case &cs) {
  Verdict v; Ctx x;
  if (!prep(cs, x, v)) return v;
  bool anyAmb = false, anyUnamb = false;
  for (auto &codes : cs.inputs) {
    std::vector<int> w;
    if (!toIdx(x.g, codes, w)) { v.st = V_DISCARD; return v; }
    Enum e(x.g, w, 20000);
    int re = refVerdict(x, w, e, v);
    if (re == -2) return v;
    if (re >= 0) { v.labels.insert("in:non-sentence(skipped)"); continue; }
    RefTrees rt = enumerate(x, e, w);
    if (rt.overflow) { v.labels.insert("discard:enumeration-cap"); continue; }
    if (rt.nder >= 2) anyAmb = true; else anyUnamb = true;
    for (int la = 0; la < 3; la++) for (int one = 0; one < 2; one++) for (int cost = 0; cost < 2; cost++) {
      Binding *b = freshDefined(cs, v);
      if (!b) return v;
      Conf cf; cf.la = la; cf.one = one; cf.cost = cost;
      ParseOpts po; po.analyse_tree = false;
      Outcome o = runParse(*b, codes, cf, po);
      v.parses++;
      if (o.exploded()) { v.labels.insert(o.explosionLabel()); b->destroy(); delete b; continue; } // harness limits (listed findings)
      std::string where = " [" + cf.str() + " input=" + inputStr(codes) + "] got " + o.str() + " derivations=" + std::to_string(rt.nder) + " translations=" + std::to_string(rt.all.size());
      if (o.rc != 0 || !o.root) { v.fail("sentence not accepted" + where); return v; }
      if (o.amb && rt.nder < 2) { v.fail("ambiguity flag set although the input has a single derivation" + where); return v; }
      if (!o.amb && rt.all.size() >= 2) { v.fail("ambiguity flag clear although the input has derivations with different translations" + where); return v; }
      if (rt.nder >= 2 && rt.all.size() == 1) v.labels.insert(o.amb ? "a:untranslated-ambiguity-flagged" : "a:untranslated-ambiguity-unflagged");
      b->destroy(); delete b;
    }
  }
  if (anyAmb) { v.nontrivial = true; v.labels.insert("a:ambiguous-input"); }
  if (anyAmb && anyUnamb) v.labels.insert("a:ambiguous-and-unambiguous-input-of-one-grammar");
  return v;
}

extern const PropDef g_props_parse[] = {
    {"C01", genC01, runC01,
     "random CFG (1-4 terminals, 1-5 nonterminals, nullable/unit/recursive/duplicate rules, strict or not, optional `error' rules) x 3 inputs "
     "(random derivation, mutated sentence, random string) x lookahead{0,1,2} x one_parse x cost x recovery, fresh object per parse; oracle = "
     "reference Earley recogniser cross-checked with a CYK-style chart. Non-trivial: grammar has a nullable nonterminal, left recursion, unit "
     "rule or duplicate rhs AND an input of >= 2 tokens; distinct by canonical case text.",
     20},
    {"C02", genC02, runC02,
     "random CFG with random translation specs (permuted/partial/nil-padded abstract nodes, pass-through, `# -', none) x sentences x lookahead "
     "{0,1,2}, one parse (plus one parse with the cost flag per input: exactly one well-formed tree without ALT nodes); oracle = membership of the returned tree (code+attribute of every TERM, node names, child order) in the set of "
     "translations of all derivations enumerated by the reference, plus structural walk. Non-trivial: grammar has a non-identity translation "
     "and the tree has >= 3 nodes.",
     20},
    {"C03", genC03, runC03,
     "ambiguity-biased random CFG x sentences x lookahead{0,1,2}, all parses; oracle = set equality between the trees denoted by the DAG and the "
     "reference enumeration, DAG acyclic, no ALT in ALT. Non-trivial: >= 2 distinct translations AND no H1 event (exact comparison performed).",
     20},
    {"C04", genC04, runC04,
     "ambiguity-biased random CFG with costs 0-3 x sentences x lookahead x one_parse x parse_free{tracking,NULL}, cost flag on; oracle = "
     "(a) result == arg-min over the trees of the unpruned DAG, own cost of every abstract node recovered by subtraction must be its rule cost, "
     "(b) minimum and arg-min equal the reference enumeration. Non-trivial: translations with different totals, or a tie, or an unambiguous "
     "sentence with >= 2 abstract nodes under the flag.",
     20},
    {"C05", genC05, runC05,
     "random CFG x sentences x lookahead x one_parse x cost; oracle: flag => >= 2 derivations; >= 2 distinct translations => flag. "
     "Non-trivial: some input of the case has >= 2 derivations.",
     20},
};
extern const int g_nprops_parse = sizeof(g_props_parse) / sizeof(g_props_parse[0]);

} // namespace vf

// ================================================================= C09
namespace vf {
namespace {
struct QuietStderr { // the library prints its debug output to stderr
  int saved;
  QuietStderr() { fflush(stderr); saved = dup(2); int dn = open("/dev/null", O_WRONLY); dup2(dn, 2); close(dn); }
  ~QuietStderr() { fflush(stderr); dup2(saved, 2); close(saved); }
};
}
static Case genC09(Choices &c, int tier) {
  GramOpts o; o.errorPct = 30; o.ambiguityBias = 15; { int w[5] = {15, 25, 15, 10, 35}; for (int k = 0; k < 5; k++) o.regimeW[k] = w[k]; }
  Case cs = genParseCase(c, tier, "C09", o, 2, 60);
  cs.par["one"] = c.flip();
  cs.par["cost"] = c.chance(30);
  cs.par["rec"] = c.chance(60);
  cs.par["match"] = c.range(1, 4);
  // one long input with repeated fragments (goto-set cache hits)
  Gram g;
  if (!cs.grams.empty() && toGram(cs.grams[0].raw, g) && classify(cs.grams[0].raw, cs.grams[0].strict).empty()) {
    std::vector<int> ml = minLen(g);
    std::vector<int> frag = genInputIdx(c, g, ml, 6, 0), frag2 = genInputIdx(c, g, ml, 4, 0);
    std::vector<int> w;
    int reps = c.range(3, tier ? 60 : 25);
    for (int r = 0; r < reps && w.size() < (size_t)(tier ? 400 : 150); r++) { const std::vector<int> &f = c.chance(75) ? frag : frag2; w.insert(w.end(), f.begin(), f.end()); }
    cs.inputs.push_back(toCodes(g, w));
    cs.par["one"] = 1; // long inputs: a single tree is compared
  }
  return cs;
}
static Verdict runC09(const Case &cs) {
  Verdict v; Ctx x;
  if (!prep(cs, x, v)) return v;
  int one = (int)cs.P("one", 1), cost = (int)cs.P("cost"), rec = (int)cs.P("rec"), match = (int)cs.P("match", 3);
  const int las[] = {1, 0, 2, -7, 3, INT_MAX};
  const int dbgs[] = {-1, 1, 2, 3, 4, 5, 6, 7};
  for (auto &codes : cs.inputs) {
    bool isLong = codes.size() > 30;
    std::string base; bool baseH1 = false; long baseSets = -1; bool setsDiffer = false; long hits = 0;
    auto runOne = [&](int la, int dbg, std::string &key, bool &h1, long &nsets) -> bool {
      Binding *b = freshDefined(cs, v);
      if (!b) return false;
      Conf cf; cf.la = la; cf.one = one; cf.cost = cost; cf.rec = rec; cf.match = match; cf.dbg = dbg;
      ParseOpts po; po.den_limit = isLong ? 50 : 3000;
      yaep_verif.cache_check = 1; yaep_verif.track = 1; yaep_verif.rec_limit = REC_LIMIT;
      Outcome o;
      { QuietStderr q; o = runParse(*b, codes, cf, po); }
      yaep_verif.cache_check = 0; yaep_verif.track = 0;
      v.parses++;
      b->destroy(); delete b;
      if (o.exploded()) { v.labels.insert(o.explosionLabel()); key = "EXPLOSION"; return true; }
      if (o.hook.n_mismatch) { v.fail("a reused (cached) Earley set differs from the set a fresh computation produces: " + std::to_string(o.hook.n_mismatch) + " of " + std::to_string(o.hook.n_hits) + " cache hits [" + cf.str() + " input=" + inputStr(codes) + "]"); return false; }
      hits += o.hook.n_hits;
      if (!o.tree.ok && o.rc == 0 && o.root) { v.fail("malformed tree: " + o.tree.problem + " [" + cf.str() + "]"); return false; }
      key = o.tupleStr();
      h1 = o.hook.n_reuse_of_copied > 0 || o.hook.n_skipped_origin > 0;
      nsets = o.hook.n_sets;
      return true;
    };
    if (!runOne(1, 0, base, baseH1, baseSets)) return v;
    if (base == "EXPLOSION") continue;
    auto compare = [&](int la, int dbg) -> bool {
      std::string k; bool h1 = false; long ns = 0;
      if (!runOne(la, dbg, k, h1, ns)) return false;
      if (k == "EXPLOSION") return true;
      if (ns != baseSets) setsDiffer = true;
      if (k != base) {
        if (!one && (h1 || baseH1) && kfListed("KF-C03-incomplete-dag")) { v.known = "KF-C03-incomplete-dag"; if (v.st == V_PASS) v.st = V_KNOWN; v.labels.insert("attributed:KF-C03-incomplete-dag"); return true; }
        v.fail("outcome depends on lookahead/debug level: [la=" + std::to_string(la) + " dbg=" + std::to_string(dbg) + "] " + k + "   versus [la=1 dbg=0] " + base + " [one=" + std::to_string(one) + " cost=" + std::to_string(cost) + " rec=" + std::to_string(rec) + " match=" + std::to_string(match) + " input=" + inputStr(codes) + "]");
        return false;
      }
      return true;
    };
    for (int i = 1; i < 6; i++) if (!compare(las[i], 0)) return v;
    if (!isLong) { for (int d : dbgs) if (!compare(1, d)) return v; if (!compare(0, 4)) return v; if (!compare(2, 6)) return v; }
    else { if (!compare(1, 1)) return v; }
    if (hits > 0) { v.nontrivial = true; v.labels.insert("k:cache-hits-checked"); }
    if (hits >= 10) v.labels.insert("k:cache-hits>=10");
    if (hits >= 100) v.labels.insert("k:cache-hits>=100");
    if (hits >= 1000) v.labels.insert("k:cache-hits>=1000");
    if (setsDiffer) { v.nontrivial = true; v.labels.insert("k:lookahead-levels-build-different-sets"); }
    if (isLong) v.labels.insert("k:long-input");
  }
  return v;
}
extern const PropDef g_props_c09[] = {
    {"C09", genC09, runC09,
     "random CFG (30% with `error' rules) x 2 short inputs x lookahead{-7,0,1,2,3,INT_MAX} x debug level{-1,0,...,7} (library chatter to "
     "/dev/null) plus one input of up to 150 tokens (thorough 400) built from repeated sentence fragments x lookahead levels, with fixed "
     "one_parse/cost/recovery/recovery_match per case; oracle: the outcome tuple (rc, every syntax_error argument, ambiguity flag, denoted trees "
     "with costs) equals the one of lookahead 1 / debug 0; hook H2 recomputes the successor set on every goto-cache hit and demands the very "
     "same (hash-consed) set. Non-trivial: >= 1 checked cache hit, or lookahead levels that build different numbers of sets.",
     40},
};
extern const int g_nprops_c09 = 1;
} // namespace vf
