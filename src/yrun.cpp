#include "yrun.hpp"
#include <fcntl.h>
#include <malloc.h>
#include <unistd.h>

namespace vf {

LibAlloc g_lib;
TreeAlloc g_tree;

// ------------------------------------------------------------ renamed libc entry points of the library
static inline bool lib_should_fail(size_t n) {
  g_lib.n_requests++;
  g_lib.bytes_requested += (long)n;
  if (g_lib.fail_at > 0 && g_lib.n_requests == g_lib.fail_at) { g_lib.failed++; return true; }
  if (g_lib.live_bytes + (long)n > g_lib.cap_bytes) { g_lib.cap_hits++; return true; }
  return false;
}
static inline void lib_note_new(void *p, size_t n) {
  (void)p;
  g_lib.live_blocks++;
  g_lib.live_bytes += (long)n;
  if (g_lib.live_bytes > g_lib.peak_bytes) g_lib.peak_bytes = g_lib.live_bytes;
}
extern "C" void *verif_malloc(size_t n) {
  if (lib_should_fail(n)) return nullptr;
  void *p = malloc(n ? n : 1);
  if (!p) return nullptr;
  if (g_lib.poison) memset(p, 0xA5, n);
  lib_note_new(p, n);
  return p;
}
extern "C" void *verif_calloc(size_t a, size_t b) {
  size_t n = a * b;
  if (lib_should_fail(n)) return nullptr;
  void *p = calloc(a ? a : 1, b ? b : 1);
  if (!p) return nullptr;
  lib_note_new(p, n);
  return p;
}
extern "C" void verif_free(void *p) {
  if (!p) return;
  size_t n = malloc_usable_size(p);
  g_lib.n_frees++;
  g_lib.live_blocks--;
  g_lib.live_bytes -= (long)n;
  if (g_lib.poison) memset(p, 0xDD, n);
  free(p);
}
extern "C" void *verif_realloc(void *p, size_t n) {
  if (!p) return verif_malloc(n);
  if (n == 0) { verif_free(p); return nullptr; } // glibc semantics
  if (lib_should_fail(n)) return nullptr;        // old block stays valid
  size_t old = malloc_usable_size(p);
  void *q = malloc(n);
  if (!q) return nullptr;
  if (g_lib.poison) memset(q, 0xA5, n);
  memcpy(q, p, old < n ? old : n);
  lib_note_new(q, n);
  g_lib.n_requests--; // verif_free below is not a request; keep counters: one request for the realloc
  g_lib.n_requests++;
  // release old
  g_lib.n_frees++;
  g_lib.live_blocks--;
  g_lib.live_bytes -= (long)old;
  if (g_lib.poison) memset(p, 0xDD, old);
  free(p);
  return q;
}

// ------------------------------------------------------------ tree allocator
void *tree_alloc(int n) {
  void *p = malloc(n > 0 ? n : 1);
  if (!p) abort();
  if (g_lib.poison) memset(p, 0xA5, n > 0 ? n : 1); // (off under valgrind: a filled block would count as initialised)
  g_tree.live[p] = n;
  g_tree.owner[p] = g_tree.epoch;
  g_tree.n_alloc++;
  return p;
}
void tree_free(void *p) {
  if (!p) { g_tree.n_free_null++; return; }
  g_tree.n_free++;
  auto f = g_tree.live.find(p);
  if (f == g_tree.live.end()) {
    g_tree.n_bad_free++;
    char b[64];
    snprintf(b, sizeof b, "free of non-live block %p; ", p);
    if (g_tree.bad.size() < 300) g_tree.bad += b;
    return; // do not hand it to free(): the verdict is what matters
  }
  if (g_tree.owner[p] != g_tree.epoch) {
    g_tree.n_bad_free++;
    if (g_tree.bad.size() < 300) g_tree.bad += "free of a block allocated during another parse; ";
    return;
  }
  g_tree.live.erase(f);
  g_tree.owner.erase(p);
  free(p);
}

// ------------------------------------------------------------ attributes
static std::vector<long> g_attrs(4096);
void setAttrBase(long n) { if ((long)g_attrs.size() < n + 1) g_attrs.assign(n + 1, 0); }
long attrIndex(void *p) {
  if (!p) return -1;
  long *q = (long *)p;
  if (q >= g_attrs.data() && q < g_attrs.data() + g_attrs.size()) return q - g_attrs.data();
  return -2;
}

// ------------------------------------------------------------ bindings
struct CBinding : Binding {
  grammar *g = nullptr;
  bool create() override { g = yaep_create_grammar(); return g != nullptr; }
  int read_grammar(int s, const char *(*rt)(int *), const char *(*rr)(const char ***, const char **, int *, int **)) override { return yaep_read_grammar(g, s, rt, rr); }
  int parse_grammar(int s, const char *d) override { return yaep_parse_grammar(g, s, d); }
  int set_la(int v) override { return yaep_set_lookahead_level(g, v); }
  int set_dbg(int v) override { return yaep_set_debug_level(g, v); }
  int set_one(int v) override { return yaep_set_one_parse_flag(g, v); }
  int set_cost(int v) override { return yaep_set_cost_flag(g, v); }
  int set_rec(int v) override { return yaep_set_error_recovery_flag(g, v); }
  int set_match(int v) override { return yaep_set_recovery_match(g, v); }
  int parse(int (*rd)(void **), void (*se)(int, void *, int, void *, int, void *), void *(*al)(int), void (*fr)(void *), yaep_tree_node **root, int *amb) override {
    return yaep_parse(g, rd, se, al, fr, root, amb);
  }
  int error_code() override { return yaep_error_code(g); }
  const char *error_message() override { return yaep_error_message(g); }
  void destroy() override { if (g) yaep_free_grammar(g); g = nullptr; }
  void free_tree(yaep_tree_node *root, void (*fr)(void *), void (*cb)(yaep_term *)) override { yaep_free_tree(root, fr, cb); }
  bool alive() override { return g != nullptr; }
};
Binding *newCBinding() { return new CBinding(); }

// ------------------------------------------------------------ definition through callbacks
namespace {
struct DefState {
  std::vector<char *> names;              // heap copies
  std::vector<int> codes;
  struct R { char *lhs; char **rhs; char *anode; int cost; int *transl; };
  std::vector<R> rules;
  size_t ti = 0, ri = 0;
} *g_def;
char *dupstr(const std::string &s) { char *p = (char *)malloc(s.size() + 1); memcpy(p, s.c_str(), s.size() + 1); return p; }
const char *cb_term(int *code) {
  if (g_def->ti >= g_def->names.size()) return nullptr;
  *code = g_def->codes[g_def->ti];
  return g_def->names[g_def->ti++];
}
const char *cb_rule(const char ***rhs, const char **an, int *cost, int **tr) {
  if (g_def->ri >= g_def->rules.size()) return nullptr;
  auto &r = g_def->rules[g_def->ri++];
  *rhs = (const char **)r.rhs;
  *an = r.anode;
  *cost = r.cost;
  *tr = r.transl;
  return r.lhs;
}
} // namespace

int defineGrammar(Binding &b, const GramDef &gd) {
  if (gd.use_text) {
    char *t = (char *)malloc(gd.text.size() + 1);
    memcpy(t, gd.text.c_str(), gd.text.size() + 1);
    int rc = b.parse_grammar(gd.strict, t);
    memset(t, 0x5A, gd.text.size() + 1);
    free(t);
    return rc;
  }
  DefState ds;
  for (auto &t : gd.raw.terms) { ds.names.push_back(dupstr(t.first)); ds.codes.push_back(t.second); }
  for (auto &r : gd.raw.rules) {
    DefState::R q;
    q.lhs = dupstr(r.lhs);
    q.rhs = (char **)malloc(sizeof(char *) * (r.rhs.size() + 1));
    for (size_t i = 0; i < r.rhs.size(); i++) q.rhs[i] = dupstr(r.rhs[i]);
    q.rhs[r.rhs.size()] = nullptr;
    q.anode = r.has_anode ? dupstr(r.anode) : nullptr;
    q.cost = r.cost;
    if (r.transl_null) q.transl = nullptr;
    else {
      q.transl = (int *)malloc(sizeof(int) * (r.transl.size() + 1));
      for (size_t i = 0; i < r.transl.size(); i++) q.transl[i] = r.transl[i];
      q.transl[r.transl.size()] = -1;
    }
    ds.rules.push_back(q);
  }
  g_def = &ds;
  int rc = b.read_grammar(gd.strict, cb_term, cb_rule);
  g_def = nullptr;
  // the caller may overwrite or free everything right after the defining call
  auto kill = [](char *p) { if (p) { memset(p, 0x5A, strlen(p)); free(p); } };
  for (auto p : ds.names) kill(p);
  for (size_t k = 0; k < ds.rules.size(); k++) {
    auto &q = ds.rules[k];
    kill(q.lhs);
    for (size_t i = 0; q.rhs[i]; i++) kill(q.rhs[i]);
    free(q.rhs);
    kill(q.anode);
    if (q.transl) { for (size_t i = 0; i <= gd.raw.rules[k].transl.size(); i++) q.transl[i] = 0x5A5A5A5A; free(q.transl); }
  }
  return rc;
}

// ------------------------------------------------------------ parse
namespace {
const std::vector<int> *g_toks;
size_t g_tp;
std::vector<ErrCall> *g_errs;
long g_termcb;
int cb_tok(void **attr) {
  if (g_tp < g_toks->size()) { *attr = &g_attrs[g_tp]; return (*g_toks)[g_tp++]; }
  *attr = nullptr;
  return -1;
}
void cb_err(int e, void *ea, int s, void *sa, int r, void *ra) {
  g_errs->push_back({e, s, r, attrIndex(ea), attrIndex(sa), attrIndex(ra)});
}
void cb_termcb(yaep_term *) { g_termcb++; }
} // namespace

// ---- tree analysis
namespace {
struct Walker {
  bool cost_mode, one_parse;
  long limit;
  TreeInfo &ti;
  std::unordered_map<yaep_tree_node *, std::vector<Tr>> memo;
  std::unordered_map<yaep_tree_node *, int> indeg;
  std::unordered_set<yaep_tree_node *> onstack;
  yaep_tree_node *nil = nullptr, *err = nullptr;
  Walker(bool c, bool o, long l, TreeInfo &t) : cost_mode(c), one_parse(o), limit(l), ti(t) {}
  void bad(const std::string &s) { if (ti.ok) { ti.ok = false; ti.problem = s; } }
  long costOf(yaep_tree_node *n) {
    switch (n->type) {
    case YAEP_ANODE: return n->val.anode.cost;
    case YAEP_ALT: {
      long c0 = costOf(n->val.alt.node);
      long guard = 0;
      for (yaep_tree_node *a = n->val.alt.next; a && a->type == YAEP_ALT && guard < 1000000; a = a->val.alt.next, guard++)
        if (costOf(a->val.alt.node) != c0 && cost_mode) bad("alternatives of one ALT node have different cost fields");
      return c0;
    }
    default: return 0;
    }
  }
  const std::vector<Tr> &den(yaep_tree_node *n) {
    static const std::vector<Tr> empty;
    if (!n) { bad("NULL node pointer"); return empty; }
    indeg[n]++;
    auto f = memo.find(n);
    if (f != memo.end()) return f->second;
    if (onstack.count(n)) { bad("cycle in the tree"); return empty; }
    if (!ti.ok || ti.overflow) return empty;
    onstack.insert(n);
    std::vector<Tr> res;
    ti.n_nodes++;
    switch ((int)n->type) {
    case YAEP_NIL:
      ti.has_nil = true;
      if (nil && nil != n) bad("two NIL nodes");
      nil = n;
      res.push_back({"nil", 0});
      break;
    case YAEP_ERROR:
      ti.has_err = true;
      if (err && err != n) bad("two ERROR nodes");
      err = n;
      res.push_back({"ERR", 0});
      break;
    case YAEP_TERM: {
      ti.n_term++;
      long ai = attrIndex(n->val.term.attr);
      ti.term_attrs.push_back({n->val.term.code, ai});
      res.push_back({"t" + std::to_string(n->val.term.code) + "@" + std::to_string(ai), 0});
      break;
    }
    case YAEP_ANODE: {
      ti.n_anode++;
      if (!n->val.anode.name) { bad("abstract node without name"); break; }
      if (!n->val.anode.children) { bad("abstract node without child array"); break; }
      long sum = 0;
      std::vector<const std::vector<Tr> *> kids;
      for (int i = 0; n->val.anode.children[i]; i++) {
        yaep_tree_node *c = n->val.anode.children[i];
        const std::vector<Tr> &d = den(c);
        if (!ti.ok || ti.overflow) break;
        kids.push_back(&d);
        sum += costOf(c);
      }
      if (!ti.ok || ti.overflow) break;
      long own = cost_mode ? (long)n->val.anode.cost - sum : (long)n->val.anode.cost;
      std::vector<Tr> acc{{std::string(n->val.anode.name) + "$" + std::to_string(own) + "(", own}};
      for (size_t i = 0; i < kids.size(); i++) {
        std::vector<Tr> nx;
        if ((long)(acc.size() * kids[i]->size()) > limit) { ti.overflow = true; break; }
        for (auto &a : acc)
          for (auto &b : *kids[i]) nx.push_back({a.s + (i ? " " : "") + b.s, a.cost + b.cost});
        acc.swap(nx);
      }
      if (ti.overflow) break;
      for (auto &a : acc) a.s += ")";
      std::sort(acc.begin(), acc.end());
      acc.erase(std::unique(acc.begin(), acc.end()), acc.end());
      res.swap(acc);
      break;
    }
    case YAEP_ALT: {
      if (one_parse) bad("ALT node although one parse was requested");
      // iterate over the chain (it can be very long: duplicated alternatives are allowed)
      std::unordered_set<yaep_tree_node *> chain;
      for (yaep_tree_node *c = n; c; c = c->val.alt.next) {
        if (c->type != YAEP_ALT) { bad("ALT.next is not an ALT node"); break; }
        if (!chain.insert(c).second) { bad("cycle in an ALT chain"); break; }
        ti.n_alt++;
        if (c != n) { ti.n_nodes++; indeg[c]++; }
        yaep_tree_node *a = c->val.alt.node;
        if (!a) { bad("ALT without node"); break; }
        if (a->type == YAEP_ALT) { bad("alternative of an ALT node is an ALT node"); break; }
        const std::vector<Tr> &d = den(a);
        if (!ti.ok || ti.overflow) break;
        res.insert(res.end(), d.begin(), d.end());
        if (res.size() > (size_t)limit * 4) { std::sort(res.begin(), res.end()); res.erase(std::unique(res.begin(), res.end()), res.end()); }
        if ((long)res.size() > limit * 4) { ti.overflow = true; break; }
      }
      std::sort(res.begin(), res.end());
      res.erase(std::unique(res.begin(), res.end()), res.end());
      if ((long)res.size() > limit) ti.overflow = true;
      break;
    }
    default: bad("node with invalid type " + std::to_string((int)n->type));
    }
    onstack.erase(n);
    return memo[n] = res;
  }
};
} // namespace

void collectBlocks(yaep_tree_node *root, std::set<void *> &blocks, long &nTerm) {
  std::vector<yaep_tree_node *> st{root};
  while (!st.empty()) {
    yaep_tree_node *n = st.back(); st.pop_back();
    if (!n || !blocks.insert(n).second) continue;
    switch ((int)n->type) {
    case YAEP_TERM: nTerm++; break;
    case YAEP_ANODE:
      blocks.insert((void *)n->val.anode.name);
      for (int i = 0; n->val.anode.children[i]; i++) st.push_back(n->val.anode.children[i]);
      break;
    case YAEP_ALT: st.push_back(n->val.alt.node); if (n->val.alt.next) st.push_back(n->val.alt.next); break;
    default: break;
    }
  }
}
long termcbCalls() { return g_termcb; }
void resetTermcb() { g_termcb = 0; }
void termcbFn(yaep_term *t) { cb_termcb(t); }

void analyseTree(yaep_tree_node *root, bool cost_mode, bool one_parse, long limit, TreeInfo &ti) {
  Walker w(cost_mode, one_parse, limit, ti);
  const std::vector<Tr> &d = w.den(root);
  if (ti.ok && !ti.overflow) ti.den.insert(d.begin(), d.end());
  if (ti.ok && root) ti.root_cost = w.costOf(root);
  for (auto &p : w.indeg) if (p.second >= 2 && p.first->type != YAEP_NIL && p.first->type != YAEP_ERROR) ti.n_shared++;
}

Outcome runParse(Binding &b, const std::vector<int> &codes, const Conf &cf, const ParseOpts &po) {
  Outcome o;
  setAttrBase(codes.size() + 2);
  if (po.apply_settings) { b.set_la(cf.la); b.set_one(cf.one); b.set_cost(cf.cost); b.set_rec(cf.rec); b.set_match(cf.match); b.set_dbg(cf.dbg); }
  g_toks = &codes; g_tp = 0; g_errs = &o.errs; g_termcb = 0;
  if (po.keep_tracking) g_tree.newEpoch(); else g_tree.reset();
  o.epoch = g_tree.epoch;
  yaep_tree_node *root = nullptr;
  int amb = 0;
  void *(*al)(int) = cf.freemode == 2 ? nullptr : tree_alloc;
  void (*fr)(void *) = cf.freemode == 0 ? tree_free : nullptr;
  long lib_live_before = g_lib.live_blocks;
  long capBefore = g_lib.cap_hits;
  long savedAlt = yaep_verif.alt_limit;
  if (yaep_verif.alt_limit == 0) yaep_verif.alt_limit = ALT_LIMIT;
  long savedRec = yaep_verif.rec_limit;
  if (yaep_verif.rec_limit == 0) yaep_verif.rec_limit = REC_LIMIT; // (a negative value switches the limit off)
  o.rc = b.parse(cb_tok, cb_err, al, fr, &root, &amb);
  o.hook = yaep_verif;
  yaep_verif.alt_limit = savedAlt; yaep_verif.rec_limit = savedRec;
  o.capped = o.rc == 1 /* YAEP_NO_MEMORY */ && g_lib.cap_hits > capBefore;
  if (o.hook.alt_explosion) {
    // the parse was cut short by the harness: the blocks of the unfinished tree belong to nobody; drop them here
    for (auto it = g_tree.owner.begin(); it != g_tree.owner.end();) {
      if (it->second == g_tree.epoch) { free(it->first); g_tree.live.erase(it->first); it = g_tree.owner.erase(it); } else ++it;
    }
    root = nullptr;
  }
  o.root = root != nullptr;
  o.rootptr = root;
  o.amb = amb;
  o.errcode = b.error_code();
  { const char *m = b.error_message(); o.errmsg = m ? std::string(m, strnlen(m, 400)) : "(null)"; }
  o.t_alloc = g_tree.n_alloc; o.t_free = g_tree.n_free; o.t_bad_free = g_tree.n_bad_free; o.t_bad = g_tree.bad;
  o.t_live_after_parse = g_tree.live.size();
  if (o.rc == 0 && root && po.analyse_tree) analyseTree(root, cf.cost != 0, cf.one != 0, po.den_limit, o.tree);
  if (root && po.free_tree) {
    if (cf.freemode == 0) {
      b.free_tree(root, tree_free, cb_termcb);
      o.t_live_after_free = g_tree.live.size();
      o.t_bad_free = g_tree.n_bad_free; o.t_bad = g_tree.bad;
      o.termcb_calls = g_termcb;
    } else if (cf.freemode == 2) {
      long before = g_lib.live_blocks;
      b.free_tree(root, nullptr, cb_termcb);
      o.termcb_calls = g_termcb;
      (void)before;
    }
    // freemode 1: the header forbids yaep_free_tree; the caller releases its blocks itself
  }
  (void)lib_live_before;
  if (cf.freemode == 1 && po.free_tree && !po.keep_tracking) { for (auto &p : g_tree.live) free(p.first); g_tree.live.clear(); g_tree.owner.clear(); }
  return o;
}

std::string Outcome::tupleStr() const {
  std::string s = "rc=" + std::to_string(rc) + " root=" + std::to_string(root) + " amb=" + std::to_string(amb) + " errs=";
  for (auto &e : errs) s += e.str();
  if (rc == 0 && root) {
    if (!tree.ok) s += " tree:BAD(" + tree.problem + ")";
    else if (tree.overflow) s += " tree:overflow";
    else {
      s += " trees={";
      for (auto &t : tree.den) s += t.s + "#" + std::to_string(t.cost) + "; ";
      s += "}";
    }
  }
  return s;
}
std::string Outcome::str() const {
  std::string s = tupleStr();
  s += " code=" + std::to_string(errcode) + " msg='" + errmsg + "'";
  return s;
}

// (weak fallback for the build without sanitizers; the sanitizer runtime's definition wins otherwise)
extern "C" __attribute__((weak)) void __sanitizer_set_report_fd(void *fd) { (void)fd; }
void reattachReports() {
  if (fcntl(250, F_GETFD) != -1) __sanitizer_set_report_fd((void *)250L);
  else __sanitizer_set_report_fd((void *)2L);
}

} // namespace vf
