// property registry + known-findings list
#include "props.hpp"
#include <unistd.h>
#include <fstream>

namespace vf {

extern const PropDef g_props_parse[];
extern const int g_nprops_parse;
extern const PropDef g_props_rec[] __attribute__((weak));
extern const int g_nprops_rec __attribute__((weak));
extern const PropDef g_props_def[] __attribute__((weak));
extern const int g_nprops_def __attribute__((weak));
extern const PropDef g_props_hist[] __attribute__((weak));
extern const int g_nprops_hist __attribute__((weak));
extern const PropDef g_props_misc[] __attribute__((weak));
extern const PropDef g_props_c09[] __attribute__((weak));
extern const PropDef g_props_fault[] __attribute__((weak));
extern const PropDef g_props_cont[] __attribute__((weak));
extern const PropDef g_props_perf[] __attribute__((weak));
extern const int g_nprops_perf __attribute__((weak));
extern const int g_nprops_cont __attribute__((weak));
extern const int g_nprops_fault __attribute__((weak));
extern const int g_nprops_c09 __attribute__((weak));
extern const int g_nprops_misc __attribute__((weak));

const PropDef *findProp(const std::string &id) {
  struct T { const PropDef *p; const int *n; } tabs[] = {
      {g_props_parse, &g_nprops_parse}, {g_props_rec, &g_nprops_rec}, {g_props_def, &g_nprops_def},
      {g_props_hist, &g_nprops_hist}, {g_props_misc, &g_nprops_misc}, {g_props_c09, &g_nprops_c09}, {g_props_fault, &g_nprops_fault}, {g_props_cont, &g_nprops_cont}, {g_props_perf, &g_nprops_perf}};
  for (auto &t : tabs) {
    if (!t.p || !t.n) continue;
    for (int i = 0; i < *t.n; i++) if (id == t.p[i].id) return &t.p[i];
  }
  return nullptr;
}

static std::map<std::string, std::string> g_kf; // id -> what (status known only)
static std::string field(const std::string &obj, const std::string &k) {
  size_t p = obj.find("\"" + k + "\"");
  if (p == std::string::npos) return "";
  p = obj.find(':', p);
  if (p == std::string::npos) return "";
  p = obj.find('"', p);
  if (p == std::string::npos) return "";
  std::string o;
  for (size_t i = p + 1; i < obj.size() && obj[i] != '"'; i++) { if (obj[i] == '\\' && i + 1 < obj.size()) i++; o += obj[i]; }
  return o;
}
std::string rootDir() {
  if (const char *e = getenv("VERIF_ROOT")) return e;
  char buf[4096];
  ssize_t n = readlink("/proc/self/exe", buf, sizeof buf - 1);
  if (n > 0) {
    std::string p(buf, n);
    for (int i = 0; i < 3; i++) { size_t k = p.rfind('/'); if (k == std::string::npos) break; p.resize(k); } // <root>/build/bin/pbt-<hash>
    if (access((p + "/known_findings.json").c_str(), R_OK) == 0) return p;
  }
  return "/verif";
}
void kfLoad(const std::string &path) {
  g_kf.clear();
  std::ifstream f(path);
  if (!f) return;
  std::stringstream ss; ss << f.rdbuf();
  std::string s = ss.str();
  size_t p = s.find('[');
  if (p == std::string::npos) return;
  int depth = 0; size_t start = 0;
  for (size_t i = p; i < s.size(); i++) {
    if (s[i] == '{') { if (depth == 0) start = i; depth++; }
    else if (s[i] == '}') { depth--; if (depth == 0) { std::string obj = s.substr(start, i - start + 1); if (field(obj, "status") == "known") g_kf[field(obj, "id")] = field(obj, "what"); } }
  }
}
bool kfListed(const std::string &id) { return g_kf.count(id) > 0; }
std::string kfWhat(const std::string &id) { auto f = g_kf.find(id); return f == g_kf.end() ? "" : f->second; }

} // namespace vf
