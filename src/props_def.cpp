// C10 (definition through callbacks) and C11 (description text <-> callbacks).
#include "props.hpp"
#include <algorithm>

namespace vf {
GramDef genTextGramPublic(Choices &c, int tier, bool mutate);
namespace {

// ---------------------------------------------------------------- defect injection (G-DEFECT)
void injectDefect(Choices &c, RawGram &g, std::set<std::string> &labels) {
  int nR = g.rules.size(), nT = g.terms.size();
  auto rrule = [&]() -> RawRule & { return g.rules[c.upto(nR - 1)]; };
  int k = c.upto(21);
  switch (k) {
  case 0: if (nT) { g.terms[c.upto(nT - 1)].second = -1 - c.upto(5); labels.insert("d:negative-code"); } break;
  case 1: if (nT) { g.terms.push_back({g.terms[c.upto(nT - 1)].first, 900 + c.upto(9)}); labels.insert("d:repeated-term-name"); } break;
  case 2: if (nT) { g.terms.push_back({"zz", g.terms[c.upto(nT - 1)].second}); labels.insert("d:repeated-code"); } break;
  case 3: { const char *n[] = {"error", "$S", "$eof"}; g.terms.push_back({n[c.upto(2)], 700 + c.upto(9)}); labels.insert("d:reserved-term-name"); } break;
  case 4: g.rules.clear(); labels.insert("d:no-rules"); break;
  case 5: if (nT && nR) { rrule().lhs = g.terms[c.upto(nT - 1)].first; labels.insert("d:term-lhs"); } break;
  case 6: if (nR) { rrule().lhs = "error"; labels.insert("d:error-lhs"); } break;
  case 7: if (nR) { RawRule &r = rrule(); r.has_anode = false; r.transl_null = false; r.rhs.push_back("a"); r.rhs.push_back("a");
      // two or three elements, each an index of the rule or the nil element (`at most one element' is the documented rule)
      int n = c.range(2, 3); r.transl.clear(); bool nil = false;
      for (int i = 0; i < n; i++) { if (c.chance(40)) { r.transl.push_back(NILNUM); nil = true; } else r.transl.push_back(c.flip() ? i : c.upto((int)r.rhs.size() - 1)); }
      labels.insert(nil ? "d:several-translations-without-anode(with-nil)" : "d:several-translations-without-anode"); } break;
  case 8: if (nR) { RawRule &r = rrule(); r.has_anode = true; r.anode = "neg"; r.cost = -1 - c.upto(3); labels.insert("d:negative-cost"); } break;
  case 9: if (nR) { RawRule &r = rrule(); r.transl_null = false; r.has_anode = true; r.anode = "oor"; r.transl.push_back((int)r.rhs.size() + c.upto(3)); labels.insert("d:index-out-of-range"); } break;
  case 10: if (nR) { RawRule &r = rrule(); if (!r.rhs.empty()) { r.transl_null = false; r.has_anode = true; r.anode = "rep"; r.transl = {0, 0}; labels.insert("d:repeated-index"); } } break;
  case 11: if (nR) { RawRule &r = rrule(); r.transl_null = false; r.has_anode = true; r.anode = "mix"; r.transl = {NILNUM, (int)r.rhs.size() + 1, NILNUM}; labels.insert("d:nil-mixed-with-out-of-range"); } break;
  case 12: if (nR) { const char *n[] = {"$S", "$eof"}; RawRule &r = g.rules[c.flip() ? 0 : c.upto(nR - 1)]; r.rhs.insert(r.rhs.begin() + c.upto((int)r.rhs.size()), n[c.upto(1)]); labels.insert("d:reserved-name-in-rhs"); } break;
  case 13: if (nR) { const char *n[] = {"$S", "$eof"}; g.rules[c.flip() ? 0 : c.upto(nR - 1)].lhs = n[c.upto(1)]; labels.insert("d:reserved-name-as-lhs"); } break;
  case 14: if (nR) { RawRule r; r.lhs = rrule().lhs; r.rhs = {r.lhs}; g.rules.push_back(r); labels.insert("d:direct-loop"); } break;
  case 15: if (nR) { RawRule r1, r2; r1.lhs = rrule().lhs; r1.rhs = {"L"}; r2.lhs = "L"; r2.rhs = {r1.lhs}; g.rules.push_back(r1); g.rules.push_back(r2); labels.insert("d:indirect-loop"); } break;
  case 16: if (nR) {
      // a loop through nullable siblings; the sibling is nullable directly or through a chain of 1-5 further nonterminals,
      // each with a non-empty alternative as well, listed top-down or bottom-up
      RawRule r; r.lhs = rrule().lhs; r.rhs = {"E", r.lhs, "E"};
      std::vector<RawRule> chain;
      int k = c.upto(5);
      for (int j = 0; j <= k; j++) {
        std::string me = j == 0 ? std::string("E") : "E" + std::to_string(j), next = "E" + std::to_string(j + 1);
        RawRule a; a.lhs = me; if (j < k) a.rhs = {next}; chain.push_back(a);
        if (k > 0 && !g.terms.empty()) { RawRule b; b.lhs = me; b.rhs = {g.terms[0].first}; chain.push_back(b); }
      }
      if (c.flip()) std::reverse(chain.begin(), chain.end());
      if (c.flip()) { g.rules.push_back(r); for (auto &x : chain) g.rules.push_back(x); }
      else { for (auto &x : chain) g.rules.push_back(x); g.rules.push_back(r); }
      labels.insert(k ? "d:loop-through-siblings-nullable-by-a-chain" : "d:loop-through-nullable-siblings"); } break;
  case 17: if (nR) { RawRule r; r.lhs = "U"; r.rhs = {"U", "a"}; g.rules.push_back(r); if (c.flip()) { rrule().rhs.push_back("U"); labels.insert("d:unproductive-used"); } else labels.insert("d:unproductive-unreachable"); } break;
  case 18: if (nR) { RawRule r; r.lhs = "Z"; r.rhs = {"a"}; g.rules.push_back(r); labels.insert("d:unreachable"); } break;
  case 19: if (nR) { g.rules[0].rhs = {g.rules[0].lhs, "a"}; for (size_t i = 1; i < g.rules.size(); i++) if (g.rules[i].lhs == g.rules[0].lhs) { g.rules[i].rhs = {g.rules[0].lhs}; } labels.insert("d:unproductive-start"); } break;
  case 20: if (nR) { rrule().rhs.push_back("undefNT"); labels.insert("d:nonterminal-without-rules"); } break;
  default: labels.insert("d:none"); break;
  }
}

Case genC10(Choices &c, int tier) {
  Case cs;
  cs.prop = "C10";
  GramOpts o; o.errorPct = 20;
  if (tier) { o.maxT = 4; o.maxN = 5; o.extraRules += 2; }
  GramDef gd;
  gd.raw = genGrammar(c, o);
  gd.strict = c.flip();
  std::set<std::string> lb;
  int nd = c.upto(2);
  for (int i = 0; i < nd; i++) injectDefect(c, gd.raw, lb);
  // the adapter passes "a" as a terminal name only if declared; make sure the helper name exists as a terminal in most cases
  cs.grams.push_back(gd);
  return cs;
}

Verdict runC10(const Case &cs) {
  Verdict v;
  if (cs.grams.empty()) { v.st = V_DISCARD; return v; }
  const GramDef &gd = cs.grams[0];
  std::set<int> D = classify(gd.raw, gd.strict);
  if (D.count(-1)) { v.st = V_INCONCLUSIVE; v.msg = "REFERENCE-DISAGREE: classifier and converter differ"; return v; }
  Binding *b = newCBinding();
  if (!b->create()) { v.fail("yaep_create_grammar returned NULL"); return v; }
  int rc = defineGrammar(*b, gd);
  v.parses++;
  std::string ds;
  for (int d : D) ds += std::to_string(d) + " ";
  std::string where = " [strict=" + std::to_string(gd.strict) + " admissible codes={" + ds + "}] got rc=" + std::to_string(rc) + " code=" + std::to_string(b->error_code()) + " msg='" + std::string(b->error_message()).substr(0, 120) + "'";
  for (int d : D) v.labels.insert("code:" + std::to_string(d));
  if (D.empty()) v.labels.insert("well-formed");
  if (D.size() >= 2) v.labels.insert("several-defects");
  if (rc == 0 && !D.empty()) { v.fail("defective grammar accepted" + where); return v; }
  if (rc != 0 && D.empty()) { v.fail("well-formed grammar rejected" + where); return v; }
  if (rc != 0 && !D.count(rc)) { v.fail("returned code names a defect the grammar does not have" + where); return v; }
  std::vector<int> none;
  Conf cf; cf.rec = 0;
  ParseOpts po; po.analyse_tree = false;
  if (rc != 0) {
    if (b->error_code() != rc) { v.fail("yaep_error_code differs from the returned code" + where); return v; }
    if (std::string(b->error_message()).empty()) { v.fail("empty error message" + where); return v; }
    Outcome o = runParse(*b, none, cf, po);
    if (o.rc != E_UNDEF) { v.fail("object with a rejected grammar did not refuse to parse: rc=" + std::to_string(o.rc) + where); return v; }
  } else {
    Outcome o = runParse(*b, none, cf, po);
    if (o.rc != 0) { v.fail("parse on an accepted grammar returned " + std::to_string(o.rc) + where); return v; }
  }
  if (!D.empty() || gd.raw.rules.size() >= 4) v.nontrivial = true;
  b->destroy(); delete b;
  return v;
}


// ================================================================= C11
// Model of a description: what the documented syntax denotes.
struct TModel {
  struct TermDecl { std::string name; int code; /* -1 = implicit */ };
  struct Alt { std::vector<std::string> rhs; /* identifiers or 'c' constants (with quotes) */ int tkind; /* 0 none, 1 '#', 2 '# k', 3 '# -', 4 anode */
               int k = 0; std::string anode; int cost = -1; /* -1 = omitted */ std::vector<int> nums; /* NILNUM = '-' */ };
  struct RuleM { std::string lhs; std::vector<Alt> alts; };
  // sections in textual order: either a TERM section (list of decl indexes) or a rule
  struct Sec { bool isTerm; std::vector<TermDecl> decls; RuleM rule; };
  std::vector<Sec> secs;
};

// the grammar the manual says the text denotes
RawGram denote(const TModel &m) {
  RawGram g;
  std::map<std::string, int> declared; // name -> explicit code or -1
  std::vector<std::string> order;
  auto note = [&](const std::string &n, int code) {
    if (!declared.count(n)) { declared[n] = code; order.push_back(n); }
    else if (declared[n] == -1 && code != -1) declared[n] = code;
  };
  for (auto &s : m.secs) {
    if (s.isTerm) for (auto &d : s.decls) note(d.name, d.code);
    else for (auto &a : s.rule.alts) for (auto &x : a.rhs) if (x[0] == '\'') note(x, (unsigned char)x[1]);
  }
  int next = 256;
  for (auto &n : order) {
    int code = declared[n];
    if (code < 0) code = next++;
    g.terms.push_back({n, code});
  }
  for (auto &s : m.secs) {
    if (s.isTerm) continue;
    for (auto &a : s.rule.alts) {
      RawRule r;
      r.lhs = s.rule.lhs;
      r.rhs = a.rhs;
      switch (a.tkind) {
      case 0: case 1: break;
      case 2: r.transl = {a.k}; break;
      case 3: r.transl = {NILNUM}; break;
      case 4: r.has_anode = true; r.anode = a.anode; r.cost = a.cost < 0 ? 1 : a.cost; r.transl = a.nums; break;
      }
      g.rules.push_back(r);
    }
  }
  return g;
}

struct Layout {
  Choices &c;
  std::string out;
  int comments = 0, newlines = 0;
  explicit Layout(Choices &c_) : c(c_) {}
  void ws(bool force = false) { // white space / comment between two tokens
    int k = c.upto(9);
    if (k == 0 && !force) return;
    switch (k) {
    default: out += " "; break;
    case 5: out += "\t"; break;
    case 6: out += "\n"; newlines++; break;
    case 7: out += "  \n "; newlines++; break;
    case 8: { // a comment with an arbitrary body over a small alphabet (stars, slashes, newlines, text); the only restriction is the
              // syntax itself: the body does not contain the closing sequence
      std::string body;
      int n = c.upto(8);
      for (int i = 0; i < n; i++) { char ch = "* /x\n*c-"[c.upto(7)]; if (ch == '/' && !body.empty() && body.back() == '*') ch = ' '; body += ch; if (ch == '\n') newlines++; }
      out += " /*" + body + "*/ "; comments++; break;
    }
    case 9: out += "/**/"; comments++; break;
    case 0: out += " "; break;
    }
  }
  void tok(const std::string &t, bool needSep = true) { ws(needSep); out += t; }
};

std::string printModel(Choices &c, const TModel &m, int *nComments) {
  Layout L(c);
  bool prevIdentLike = false; (void)prevIdentLike;
  for (auto &s : m.secs) {
    if (s.isTerm) {
      L.tok("TERM");
      for (auto &d : s.decls) {
        L.tok(d.name, true);
        if (d.code >= 0) { L.tok("=", false); L.tok(std::to_string(d.code), false); }
      }
      if (c.flip()) L.tok(";", false);
      else L.out += "\n";
    } else {
      // the lexer decides "left-hand side" by looking for ':' after blanks only: no comment between name and colon
      L.ws(true);
      L.out += s.rule.lhs;
      for (int k = c.upto(2); k > 0; k--) L.out += c.flip() ? " " : "\n";
      L.out += ":";
      for (size_t ai = 0; ai < s.rule.alts.size(); ai++) {
        auto &a = s.rule.alts[ai];
        if (ai) L.tok("|", false);
        for (auto &x : a.rhs) L.tok(x, true);
        switch (a.tkind) {
        case 0: break;
        case 1: L.tok("#", false); break;
        case 2: L.tok("#", false); L.tok(std::to_string(a.k), false); break;
        case 3: L.tok("#", false); L.tok("-", false); break;
        case 4:
          L.tok("#", false); L.tok(a.anode, false);
          if (a.cost >= 0) L.tok(std::to_string(a.cost), true);
          L.tok("(", false);
          for (int n : a.nums) L.tok(n == NILNUM ? "-" : std::to_string(n), true);
          L.tok(")", false);
          break;
        }
      }
      if (c.flip()) L.tok(";", false);
      else L.out += "\n";
    }
  }
  L.ws();
  if (nComments) *nComments = L.comments;
  return L.out;
}

// model generator: from a random RawGram (names a,b,.. A,B,..) build sections with lexical variety
TModel genModel(Choices &c, int tier, std::set<std::string> &lb) {
  GramOpts o; o.errorPct = 15; o.plainCodes = true;
  if (tier) { o.maxT = 4; o.maxN = 5; }
  RawGram g = genGrammar(c, o);
  TModel m;
  // terminal representation: identifier with explicit code / implicit code / character constant
  std::map<std::string, std::string> ren;
  std::vector<TModel::TermDecl> decls;
  const char *oddChars = "+*()'#|;:-=/ \"\\";
  int ti = 0;
  for (auto &t : g.terms) {
    int k = c.upto(3);
    if (k == 0) { char ch = c.chance(25) ? oddChars[c.upto(14)] : (char)('a' + ti); std::string q = std::string("'") + ch + "'"; if (ren.count(q) == 0) { bool dup = false; for (auto &r : ren) if (r.second == q) dup = true; if (!dup) { ren[t.first] = q; lb.insert("x:char-constant"); if (ch == '\'') lb.insert("x:quote-constant"); ti++; continue; } } }
    std::string nm = std::string(c.chance(20) ? "tok_" : "t") + std::string(1, (char)('a' + ti)) + (c.chance(15) ? "_1" : "");
    ren[t.first] = nm;
    TModel::TermDecl d; d.name = nm;
    if (k == 1) { d.code = c.flip() ? 'a' + 20 - ti : 50 + 7 * ti; lb.insert("x:explicit-code"); }
    else { d.code = -1; lb.insert("x:implicit-code"); }
    decls.push_back(d);
    ti++;
  }
  // rules grouped by lhs (alternatives), sometimes split into several rule sections
  std::vector<TModel::RuleM> rules;
  for (auto &r : g.rules) {
    TModel::Alt a;
    for (auto &x : r.rhs) a.rhs.push_back(ren.count(x) ? ren[x] : x);
    if (r.has_anode) { a.tkind = 4; a.anode = r.anode; a.cost = c.chance(35) ? -1 : r.cost; a.nums = r.transl; if (a.cost < 0) lb.insert("x:default-cost"); for (int n : a.nums) if (n == NILNUM) lb.insert("x:nil-in-anode"); }
    else if (r.transl_null || r.transl.empty()) a.tkind = c.flip() ? 0 : 1;
    else if (r.transl[0] == NILNUM) a.tkind = 3;
    else { a.tkind = 2; a.k = r.transl[0]; }
    bool merged = false;
    if (!rules.empty() && rules.back().lhs == r.lhs && c.chance(80)) { rules.back().alts.push_back(a); merged = true; lb.insert("x:alternatives"); }
    if (!merged) { for (auto &q : rules) if (q.lhs == r.lhs && c.chance(50)) { q.alts.push_back(a); merged = true; lb.insert("x:alternatives"); break; } }
    if (!merged) { TModel::RuleM q; q.lhs = r.lhs; q.alts.push_back(a); rules.push_back(q); }
  }
  // keep the first rule first (it defines the start symbol); TERM sections before / between / after rules
  std::vector<TModel::Sec> secs;
  for (auto &q : rules) { TModel::Sec s; s.isTerm = false; s.rule = q; secs.push_back(s); }
  // distribute declarations over 1-3 TERM sections at random places; optionally repeat a declaration identically
  int nsec = decls.empty() ? c.upto(1) : c.range(1, 3);
  std::vector<TModel::Sec> tsecs(nsec);
  for (auto &s : tsecs) s.isTerm = true;
  for (auto &d : decls) { tsecs[c.upto(nsec - 1)].decls.push_back(d); if (c.chance(15)) { tsecs[c.upto(nsec - 1)].decls.push_back(d); lb.insert("x:repeated-declaration"); } }
  for (auto &s : tsecs) {
    int pos = c.chance(50) ? 0 : c.upto((int)secs.size());
    if (pos > 0) lb.insert("x:TERM-section-after-rules");
    secs.insert(secs.begin() + pos, s);
  }
  m.secs = secs;
  return m;
}

Case genC11(Choices &c, int tier) {
  Case cs;
  cs.prop = "C11";
  std::set<std::string> lb;
  TModel m = genModel(c, tier, lb);
  int nc = 0;
  std::string text = printModel(c, m, &nc);
  GramDef twin; twin.raw = denote(m); twin.strict = c.flip();
  GramDef td = twin; td.use_text = true; td.text = text;
  int mutate = c.chance(25) ? c.range(1, 3) : 0;
  for (int i = 0; i < mutate && !td.text.empty(); i++) {
    int pos = c.upto((int)td.text.size() - 1);
    switch (c.upto(4)) {
    case 0: td.text.erase(pos, 1); break;
    case 1: td.text.insert(pos, 1, "'#|;:()-=/*9aA \n"[c.upto(15)]); break;
    case 2: td.text[pos] = "'#|;:()-=/*9aA \n\x01\xff"[c.upto(17)]; break;
    case 3: td.text.resize(pos); break;
    case 4: td.text.insert(pos, td.text.substr(pos, c.upto(6))); break;
    }
  }
  cs.par["mutated"] = mutate ? 1 : 0;
  cs.par["comments"] = nc;
  cs.grams.push_back(td);   // 0: the text
  cs.grams.push_back(twin); // 1: what it denotes (callbacks)
  Gram g;
  if (toGram(twin.raw, g) && classify(twin.raw, twin.strict).empty()) {
    std::vector<int> ml = minLen(g);
    for (int k = 0; k < 4; k++) cs.inputs.push_back(toCodes(g, genInputIdx(c, g, ml, 8, c.chance(60) ? 0 : (c.flip() ? 1 : 2))));
  }
  // prelude: other descriptions (mostly damaged ones) given to other grammar objects of the same process first; what a
  // description denotes must not depend on what the description reader saw before
  if (c.chance(45)) { int n = c.range(1, 2); for (int i = 0; i < n; i++) { bool mut = c.chance(80); cs.grams.push_back(genTextGramPublic(c, tier, mut)); } lb.insert("x:after-other-descriptions"); }
  int li = 0;
  for (auto &l : lb) cs.par["L" + std::to_string(li++) + ":" + l] = 1;
  return cs;
}

Verdict runC11(const Case &cs) {
  Verdict v;
  if (cs.grams.size() < 2) { v.st = V_DISCARD; return v; }
  for (auto &p : cs.par) if (p.first[0] == 'L') v.labels.insert(p.first.substr(p.first.find(':') + 1));
  bool mutated = cs.P("mutated") != 0;
  const GramDef &td = cs.grams[0], &tw = cs.grams[1];
  for (size_t i = 2; i < cs.grams.size(); i++) {
    Binding *bp = newCBinding();
    if (!bp->create()) { v.fail("yaep_create_grammar returned NULL"); return v; }
    int rp = defineGrammar(*bp, cs.grams[i]);
    v.parses++;
    v.labels.insert(rp ? "prelude:rejected" : "prelude:accepted");
    if (rp != 0 && (rp < E_SYNTAX || rp > E_LOOP)) { v.fail("prelude description: undocumented result " + std::to_string(rp) + " msg='" + bp->error_message() + "'"); return v; }
    bp->destroy(); delete bp;
  }
  Binding *bt = newCBinding(), *bc = newCBinding();
  if (!bt->create() || !bc->create()) { v.fail("yaep_create_grammar returned NULL"); return v; }
  int rt = defineGrammar(*bt, td);
  std::string msg = bt->error_message();
  v.parses++;
  if (mutated) {
    v.labels.insert("mutated-text");
    // any text: 0 or a documented definition error; syntax errors carry a line number inside the text
    if (rt != 0 && (rt < E_SYNTAX || rt > E_LOOP)) { v.fail("mutated description: undocumented result " + std::to_string(rt) + " msg='" + msg + "'"); return v; }
    if (rt == E_SYNTAX) {
      long lines = 1; for (char ch : td.text) if (ch == '\n') lines++;
      long ln = -1;
      if (sscanf(msg.c_str(), "description syntax error on ln %ld", &ln) != 1 || ln < 1 || ln > lines) { v.fail("syntax error message without a line number inside the text (" + std::to_string(lines) + " lines): '" + msg + "'"); return v; }
      v.labels.insert("mutated:syntax-error");
    } else v.labels.insert(rt == 0 ? "mutated:still-accepted" : "mutated:grammar-error");
    if (bt->error_code() != rt && rt != 0) { v.fail("error code not recorded in the object"); return v; }
    v.nontrivial = true;
    return v;
  }
  int rc = defineGrammar(*bc, tw);
  std::string where = " text rc=" + std::to_string(rt) + " ('" + msg + "') callbacks rc=" + std::to_string(rc) + " ('" + bc->error_message() + "')";
  if (rt != rc) { v.fail("description and the denoted grammar are not defined alike:" + where); return v; }
  if (rt != 0) { v.labels.insert("both-rejected-code-" + std::to_string(rt)); return v; }
  for (auto &codes : cs.inputs) {
    for (int cfg = 0; cfg < 2; cfg++) {
      Conf cf; cf.la = cfg ? 2 : 1; cf.one = cfg ? 0 : 1; cf.cost = cfg; cf.rec = 1;
      yaep_verif.rec_limit = REC_LIMIT;
      Outcome a = runParse(*bt, codes, cf);
      Outcome b = runParse(*bc, codes, cf);
      v.parses += 2;
      if (a.exploded() || b.exploded()) { v.labels.insert((a.exploded() ? a : b).explosionLabel()); continue; }
      if (a.tupleStr() != b.tupleStr()) { v.fail("parse outcomes differ [" + cf.str() + "] text: " + a.str() + "  callbacks: " + b.str()); return v; }
    }
  }
  if (v.labels.count("x:implicit-code") && cs.P("comments") > 0 && v.labels.count("x:alternatives") && v.labels.count("x:nil-in-anode")) v.nontrivial = true;
  else if (cs.inputs.size() >= 2 && (v.labels.count("x:implicit-code") || v.labels.count("x:char-constant"))) v.nontrivial = true;
  return v;
}

} // namespace

// exported for the history properties (C14-C16)
void injectDefectPublic(Choices &c, RawGram &g) { std::set<std::string> lb; injectDefect(c, g, lb); }
GramDef genTextGramPublic(Choices &c, int tier, bool mutate) {
  std::set<std::string> lb;
  TModel m = genModel(c, tier, lb);
  GramDef td;
  td.raw = denote(m);
  td.strict = c.flip();
  td.use_text = true;
  td.text = printModel(c, m, nullptr);
  if (mutate && !td.text.empty()) {
    td.mutated = true;
    int pos = c.upto((int)td.text.size() - 1);
    switch (c.upto(2)) {
    case 0: td.text.erase(pos, 1 + c.upto(3)); break;
    case 1: td.text.insert(pos, 1, "'#|;:()-=/*9aA"[c.upto(13)]); break;
    case 2: td.text.resize(pos); break;
    }
  }
  return td;
}

extern const PropDef g_props_def[] = {
    {"C10", genC10, runC10,
     "random terminal/rule lists with 0-2 injected defects from the documented list (negative/repeated/reserved names and codes, no rules, terminal "
     "or `error' as lhs, two translations without abstract node, negative cost, index out of range/repeated, NIL mixed with bad index, $S/$eof in "
     "first or later rules, direct/indirect/nullable-sibling loops, unproductive (used, unreachable, start), unreachable, nonterminal without rules) "
     "x strict{0,1}; oracle: reference classifier computes the set D of admissible codes; rc==0 <=> D empty; rc!=0 => rc in D, error code/message "
     "set, parse refuses. Non-trivial: >= 1 defect present, or a well-formed grammar with >= 4 rules.",
     10},
    {"C11", genC11, runC11,
     "random grammar model printed in the documented YACC-like syntax with random layout (blanks, tabs, newlines, /* */ comments between any two "
     "tokens except lhs and its colon, optional `;', 1-3 TERM sections before/between/after rules, identical repeated declarations, explicit and "
     "implicit codes, character constants incl. the quote and other punctuation, optional cost, `#', `# k', `# -', `# name [cost] (..-..)'), twin "
     "object defined through read_grammar with what the manual says the text denotes; oracle: same definition result and identical outcome "
     "tuples (rc, callbacks, ambiguity flag, denoted trees with costs) on 4 inputs x 2 configurations. 25% of the texts are mutated (delete, "
     "insert, replace, truncate, duplicate): result must be 0 or a documented code, syntax errors must name a line inside the text. 45% of the "
     "cases first give 1-2 other (mostly damaged) descriptions to other objects of the same process. "
     "Non-trivial: text with implicit codes or character constants and >= 2 inputs compared, or a mutated text.",
     15},
};
extern const int g_nprops_def = sizeof(g_props_def) / sizeof(g_props_def[0]);

} // namespace vf
