// pbt: the property-based driver.
//   pbt run    --prop C01 --tier quick --cases N --seed S --worker W --out partial.json --replaydir DIR
//   pbt replay FILE            (bypasses rapidcheck; runs the case 3 times)
//   pbt show   --prop C01 --seed S --n K   (print K generated cases; debugging aid)
#include <rapidcheck.h>
#include "child.hpp"
#include <chrono>
#include <fcntl.h>
#include <fstream>
#include <unordered_set>

using namespace vf;
namespace vf { void dbgFault(const Case &cs, long k); void dbgPerf(const Case &cs); }

extern "C" const char *__asan_default_options() { return "detect_leaks=0:allocator_may_return_null=1:handle_abort=1:abort_on_error=0:symbolize=1"; }
extern "C" const char *__ubsan_default_options() { return "print_stacktrace=1"; }

static std::string jsonEsc(const std::string &s) {
  std::string o;
  char b[8];
  for (unsigned char c : s) {
    if (c == '"' || c == '\\') { o += '\\'; o += c; }
    else if (c == '\n') o += "\\n";
    else if (c < 32 || c >= 127) { snprintf(b, sizeof b, "\\u%04x", c); o += b; }
    else o += c;
  }
  return o;
}
static uint64_t fnv(const std::string &s) { uint64_t h = 1469598103934665603ULL; for (unsigned char c : s) { h ^= c; h *= 1099511628211ULL; } return h; }

static std::string caseKey(const Case &c) { Case d = c; d.choices.clear(); return caseText(d); }

struct Stats {
  long evaluations = 0, shrinks = 0, discarded = 0, inconclusive = 0, known = 0, parses = 0;
  std::unordered_set<uint64_t> distinct, distinctNontrivial;
  std::map<std::string, long> labels;
  std::map<std::string, long> knownIds;
  std::vector<std::string> samples;
  std::vector<std::string> knownSamples;
};

static int cmdReplay(const std::string &file) {
  std::ifstream f(file);
  if (!f) { printf("cannot read %s\n", file.c_str()); return 2; }
  std::stringstream ss; ss << f.rdbuf();
  Case cs;
  if (!parseCase(ss.str(), cs)) { printf("cannot parse %s\n", file.c_str()); return 2; }
  const PropDef *pd = findProp(cs.prop);
  if (!pd) { printf("unknown property %s\n", cs.prop.c_str()); return 2; }
  int fails = 0, knowns = 0, inconcl = 0;
  Verdict last;
  for (int i = 0; i < 3; i++) {
    Verdict v = runInChild(*pd, cs, pd->timeout_s * 3);
    last = v;
    if (v.st == V_FAIL) fails++;
    else if (v.st == V_KNOWN) knowns++;
    else if (v.st == V_INCONCLUSIVE) inconcl++;
    printf("replay %d: %s %s\n", i + 1, v.st == V_PASS ? "PASS" : v.st == V_FAIL ? "FAIL" : v.st == V_KNOWN ? "KNOWN" : v.st == V_DISCARD ? "DISCARD" : "INCONCLUSIVE", v.msg.c_str());
    if (fails != i + 1 && knowns != i + 1) break; // the three runs can no longer agree on "fail" or "known": the result is decided
  }
  if (fails == 3) { printf("REPLAY-RESULT fail property=%s\n", cs.prop.c_str()); return 1; }
  if (knowns == 3) { printf("REPLAY-RESULT known property=%s id=%s\n", cs.prop.c_str(), last.known.c_str()); return 0; }
  if (fails > 0 || inconcl > 0) { printf("REPLAY-RESULT inconclusive property=%s fails=%d\n", cs.prop.c_str(), fails); return 0; }
  printf("REPLAY-RESULT pass property=%s\n", cs.prop.c_str());
  return 0;
}

int main(int argc, char **argv) {
  std::string cmd = argc > 1 ? argv[1] : "";
  std::map<std::string, std::string> a;
  for (int i = 2; i + 1 < argc; i += 2) a[argv[i]] = argv[i + 1];
  if (getenv("VERIF_NO_POISON")) g_lib.poison = false; // valgrind tier: memcheck tracks definedness itself
  const char *kf = getenv("VERIF_KNOWN_FINDINGS");
  kfLoad(kf ? kf : rootDir() + "/known_findings.json");
  if (cmd == "replay") return cmdReplay(argc > 2 ? argv[2] : "");
  if (cmd == "dbgparse") { // pbt dbgparse FILE input# la one cost rec dbg  : one parse in-process, library debug output to stderr
    std::ifstream f(argv[2]);
    std::stringstream ss; ss << f.rdbuf();
    Case cs;
    if (!parseCase(ss.str(), cs)) return 2;
    Binding *b = newCBinding();
    b->create();
    int rc = defineGrammar(*b, cs.grams[0]);
    printf("define rc=%d %s\n", rc, b->error_message());
    Conf cf; cf.la = atoi(argv[4]); cf.one = atoi(argv[5]); cf.cost = atoi(argv[6]); cf.rec = atoi(argv[7]); cf.dbg = atoi(argv[8]);
    yaep_verif.track = 1;
    if (argc > 9) cf.match = atoi(argv[9]);
    if (getenv("RECLIMIT")) yaep_verif.rec_limit = atol(getenv("RECLIMIT"));
    if (getenv("FREEMODE")) cf.freemode = atoi(getenv("FREEMODE"));
    Outcome o = runParse(*b, cs.inputs[atoi(argv[3])], cf);
    printf("tree: ok=%d problem='%s' nodes=%ld alt=%ld anode=%ld shared=%ld overflow=%d denoted=%zu\n", o.tree.ok, o.tree.problem.c_str(), o.tree.n_nodes, o.tree.n_alt, o.tree.n_anode, o.tree.n_shared, o.tree.overflow, o.tree.den.size());
    for (int i = 0; i < o.hook.n_rec && i < YAEP_VERIF_MAX_REC; i++) printf("recovery %d: err_tok=%d pops=%ld found=%d back_set=%d behind=%d ahead=%d\n", i, o.hook.rec[i].err_tok, o.hook.rec[i].pops, o.hook.rec[i].found, o.hook.rec[i].back_set, o.hook.rec[i].behind, o.hook.rec[i].ahead);
    printf("explosion=%d\n", o.hook.rec_explosion);
    printf("%s\nhooks: reuse=%d copy=%d reuse_of_copied=%d skipped_origin=%d\n", o.str().c_str(), o.hook.n_reuse, o.hook.n_copy, o.hook.n_reuse_of_copied, o.hook.n_skipped_origin);
    return 0;
  }
  if (cmd == "dbgfault") { // pbt dbgfault FILE k : run a C17 scenario in-process with allocation request k of the window failing
    std::ifstream f(argv[2]);
    std::stringstream ss; ss << f.rdbuf();
    Case cs;
    if (!parseCase(ss.str(), cs)) return 2;
    dbgFault(cs, atol(argv[3]));
    return 0;
  }
  if (cmd == "dbgperf") {
    std::ifstream f(argv[2]);
    std::stringstream ss; ss << f.rdbuf();
    Case cs;
    if (!parseCase(ss.str(), cs)) return 2;
    dbgPerf(cs);
    return 0;
  }
  if (cmd == "rules") {
    printf("{");
    bool first = true;
    for (const char *id : {"C01","C02","C03","C04","C05","C06","C07","C08","C09","C10","C11","C12","C13","C14","C15","C16","C17","C18","C19"}) {
      const PropDef *p = findProp(id);
      if (!p) continue;
      printf("%s\"%s\": \"%s\"", first ? "" : ",\n ", id, jsonEsc(p->rule).c_str());
      first = false;
    }
    printf("}\n");
    return 0;
  }
  std::string prop = a["--prop"];
  const PropDef *pd = findProp(prop);
  if (!pd) { fprintf(stderr, "unknown property '%s'\n", prop.c_str()); return 2; }
  int tier = a["--tier"] == "thorough" ? 1 : 0;
  long cases = a.count("--cases") ? atol(a["--cases"].c_str()) : 200;
  long seed = a.count("--seed") ? atol(a["--seed"].c_str()) : 1;
  int worker = a.count("--worker") ? atoi(a["--worker"].c_str()) : 0;
  int maxSize = a.count("--maxsize") ? atoi(a["--maxsize"].c_str()) : 400;
  double budget = a.count("--budget") ? atof(a["--budget"].c_str()) : 0; // soft wall-clock budget: stop generating new cases
  std::string out = a["--out"], replaydir = a.count("--replaydir") ? a["--replaydir"] : ".";

  if (cmd == "show") {
    long n = a.count("--n") ? atol(a["--n"].c_str()) : 3;
    setenv("RC_PARAMS", ("seed=" + std::to_string(seed) + " max_success=" + std::to_string(n) + " max_size=" + std::to_string(maxSize)).c_str(), 1);
    rc::check([&]() {
      auto ch = *rc::gen::container<std::vector<uint32_t>>(rc::gen::resize(100, rc::gen::arbitrary<uint32_t>()));
      Choices c(ch);
      Case cs = pd->gen(c, tier);
      printf("-----\n%s", caseText(cs).c_str());
    });
    return 0;
  }
  if (cmd != "run") { fprintf(stderr, "usage: pbt run|replay|show ...\n"); return 2; }
  startZygote();

  unsigned long rcseed = (unsigned long)seed * 1000003UL + (unsigned long)worker * 7919UL + fnv(prop) % 1000;
  setenv("RC_PARAMS", ("seed=" + std::to_string(rcseed) + " max_success=" + std::to_string(cases) + " max_size=" + std::to_string(maxSize) + " max_discard_ratio=100").c_str(), 1);

  Stats st;
  bool failedOnce = false;
  Case lastFailCase;
  Verdict lastFailVerdict;
  auto t0 = std::chrono::steady_clock::now();
  auto elapsed = [&]() { return std::chrono::duration<double>(std::chrono::steady_clock::now() - t0).count(); };
  bool budgetHit = false;
  long maxShrinks = a.count("--maxshrinks") ? atol(a["--maxshrinks"].c_str()) : 1500;
  double shrinkBudget = a.count("--shrinkbudget") ? atof(a["--shrinkbudget"].c_str()) : 40, failTime = 0;

  // rapidcheck prints its own report to stderr; silence it (we report ourselves)
  int savedErr = dup(2);
  int devnull = open(getenv("PBT_STDERR") ? getenv("PBT_STDERR") : "/dev/null", O_WRONLY | O_CREAT | O_TRUNC, 0644);
  bool ok = true;
  {
    dup2(devnull, 2);
    ok = rc::check([&]() {
      auto ch = *rc::gen::container<std::vector<uint32_t>>(rc::gen::resize(100, rc::gen::arbitrary<uint32_t>()));
      if (!failedOnce && budget > 0 && elapsed() > budget) { budgetHit = true; return; } // time budget: inconclusive for the rest, never a verdict
      if (failedOnce && (st.shrinks >= maxShrinks || elapsed() - failTime > shrinkBudget)) return; // bounded shrinking: keep the best so far
      Choices c(ch);
      Case cs = pd->gen(c, tier);
      cs.choices = ch;
      std::string key = caseKey(cs);
      uint64_t h = fnv(key);
      Verdict v = runInChild(*pd, cs);
      if (failedOnce) st.shrinks++;
      else {
        st.evaluations++;
        st.parses += v.parses;
        st.distinct.insert(h);
        for (auto &l : v.labels) st.labels[l]++;
        if (v.st == V_DISCARD) st.discarded++;
        if (v.st == V_INCONCLUSIVE) st.inconclusive++;
        if (v.st == V_KNOWN) { st.known++; st.knownIds[v.known]++; if (st.knownSamples.size() < 2) st.knownSamples.push_back(key); }
        if ((v.st == V_PASS || v.st == V_KNOWN) && v.nontrivial) {
          if (st.distinctNontrivial.insert(h).second && st.samples.size() < 4 && (st.distinctNontrivial.size() % 7 == 1)) st.samples.push_back(key);
        }
      }
      if (v.st == V_FAIL) {
        if (!failedOnce) failTime = elapsed();
        failedOnce = true;
        lastFailCase = cs;
        lastFailVerdict = v;
        RC_FAIL(v.msg);
      }
    });
    dup2(savedErr, 2);
  }
  close(devnull);

  std::string replayFile;
  if (!ok && failedOnce) {
    replayFile = replaydir + "/" + prop + "-s" + std::to_string(seed) + "-w" + std::to_string(worker) + ".case";
    std::ofstream rf(replayFile);
    rf << "# shrunk counterexample found by pbt (property " << prop << ", seed " << seed << ", worker " << worker << ")\n";
    rf << "# verdict: " << oneLine(lastFailVerdict.msg).substr(0, 3000) << "\n";
    rf << caseText(lastFailCase);
    rf.close();
  }
  if (!out.empty()) {
    std::ofstream o(out);
    o << "{\n \"property_id\": \"" << prop << "\", \"worker\": " << worker << ", \"seed\": " << seed << ",\n";
    o << " \"evaluations\": " << st.evaluations << ", \"shrinks\": " << st.shrinks << ", \"discarded\": " << st.discarded
      << ", \"inconclusive\": " << st.inconclusive << ", \"attributed_known\": " << st.known << ", \"parses\": " << st.parses
      << ", \"distinct\": " << st.distinct.size() << ", \"budget_hit\": " << (budgetHit ? "true" : "false") << ",\n";
    o << " \"nontrivial_hashes\": [";
    bool first = true;
    for (auto h : st.distinctNontrivial) { o << (first ? "" : ",") << "\"" << std::hex << h << std::dec << "\""; first = false; }
    o << "],\n \"labels\": {";
    first = true;
    for (auto &l : st.labels) { o << (first ? "" : ", ") << "\"" << jsonEsc(l.first) << "\": " << l.second; first = false; }
    o << "},\n \"known_ids\": {";
    first = true;
    for (auto &l : st.knownIds) { o << (first ? "" : ", ") << "\"" << jsonEsc(l.first) << "\": " << l.second; first = false; }
    o << "},\n \"samples\": [";
    first = true;
    for (auto &s : st.samples) { o << (first ? "" : ", ") << "\"" << jsonEsc(s) << "\""; first = false; }
    o << "],\n \"known_samples\": [";
    first = true;
    for (auto &s : st.knownSamples) { o << (first ? "" : ", ") << "\"" << jsonEsc(s) << "\""; first = false; }
    o << "],\n \"failed\": " << (failedOnce ? "true" : "false") << ", \"replay\": \"" << jsonEsc(replayFile) << "\", \"failure\": \""
      << jsonEsc(lastFailVerdict.msg.substr(0, 2000)) << "\",\n \"wall_s\": " << elapsed() << "\n}\n";
  }
  return failedOnce ? 1 : 0;
}
