// A generated case: pools of grammars / inputs, a list of operations and
// integer parameters.  Every property uses the subset it needs.  The text form
// is the replay file: `check --replay file` parses it and runs it without
// rapidcheck or libFuzzer.
#pragma once
#include "model.hpp"
#include <cstdint>
#include <cstring>

namespace vf {

struct Op {
  std::string kind;
  std::vector<long> a;
};
struct GramDef {
  RawGram raw;
  int strict = 0;
  bool use_text = false;   // define through yaep_parse_grammar(text)
  bool mutated = false;    // the text was mutated: `raw' no longer says what it denotes
  std::string text;
};
struct Case {
  std::string prop;
  std::vector<GramDef> grams;
  std::vector<std::vector<int>> inputs; // token codes as delivered by read_token
  std::vector<Op> ops;
  std::map<std::string, long> par;
  std::vector<uint32_t> choices; // the choice sequence that produced the case (informational)
  long P(const std::string &k, long d = 0) const { auto f = par.find(k); return f == par.end() ? d : f->second; }
};

inline std::string oneLineStr(const std::string &s) { std::string o; for (char c : s) o += (c == '\n' || c == '\r' || c == '\t') ? ' ' : c; return o; }
inline std::string esc(const std::string &s) {
  std::string o;
  char b[8];
  for (unsigned char c : s) {
    if (isalnum(c) || c == '_' || c == '$' || c == '\'') o += c;
    else { snprintf(b, sizeof b, "%%%02X", c); o += b; }
  }
  if (o.empty()) o = "%";
  return o;
}
inline std::string unesc(const std::string &s) {
  if (s == "%") return "";
  std::string o;
  for (size_t i = 0; i < s.size(); i++)
    if (s[i] == '%' && i + 2 < s.size()) {
      o += (char)strtol(s.substr(i + 1, 2).c_str(), nullptr, 16);
      i += 2;
    } else o += s[i];
  return o;
}

inline std::string rawGramText(const GramDef &gd) {
  std::ostringstream o;
  for (auto &t : gd.raw.terms) o << " term " << esc(t.first) << " " << t.second << "\n";
  for (auto &r : gd.raw.rules) {
    o << " rule " << esc(r.lhs) << " :";
    for (auto &s : r.rhs) o << " " << esc(s);
    o << " # " << (r.has_anode ? "A " + esc(r.anode) : std::string("N -")) << " " << r.cost << " " << (r.transl_null ? "null" : "list");
    for (int t : r.transl) o << " " << t;
    o << "\n";
  }
  if (gd.use_text) {
    o << " text ";
    char b[4];
    for (unsigned char c : gd.text) { snprintf(b, sizeof b, "%02x", c); o << b; }
    o << "\n";
    // readable copy (comment lines are ignored by the parser)
    std::istringstream is(gd.text);
    std::string l;
    while (std::getline(is, l)) {
      std::string p;
      for (unsigned char c : l) p += (c >= 32 && c < 127) ? (char)c : '?';
      o << " ## " << p << "\n";
    }
  }
  return o.str();
}

inline std::string caseText(const Case &c) {
  std::ostringstream o;
  o << "prop " << c.prop << "\n";
  for (size_t i = 0; i < c.grams.size(); i++) {
    o << "gram " << i << " strict=" << c.grams[i].strict << " text=" << (c.grams[i].use_text ? 1 : 0) << " mut=" << (c.grams[i].mutated ? 1 : 0) << "\n";
    o << rawGramText(c.grams[i]);
  }
  for (size_t i = 0; i < c.inputs.size(); i++) {
    o << "input " << i << " :";
    for (int t : c.inputs[i]) o << " " << t;
    o << "\n";
  }
  for (auto &op : c.ops) {
    o << "op " << op.kind;
    for (long a : op.a) o << " " << a;
    o << "\n";
  }
  for (auto &p : c.par) o << "par " << p.first << " " << p.second << "\n";
  if (!c.choices.empty()) {
    o << "choices";
    for (auto v : c.choices) o << " " << v;
    o << "\n";
  }
  return o.str();
}

inline bool parseCase(const std::string &txt, Case &c) {
  c = Case();
  std::istringstream is(txt);
  std::string line;
  while (std::getline(is, line)) {
    std::istringstream ls(line);
    std::string w;
    if (!(ls >> w)) continue;
    if (w[0] == '#') continue;
    if (w == "prop") ls >> c.prop;
    else if (w == "gram") {
      GramDef gd;
      std::string a;
      int idx; ls >> idx;
      while (ls >> a) {
        if (a.rfind("strict=", 0) == 0) gd.strict = atoi(a.c_str() + 7);
        if (a.rfind("text=", 0) == 0) gd.use_text = atoi(a.c_str() + 5);
        if (a.rfind("mut=", 0) == 0) gd.mutated = atoi(a.c_str() + 4);
      }
      c.grams.push_back(gd);
    } else if (w == "term") {
      std::string n; int code; ls >> n >> code;
      if (c.grams.empty()) return false;
      c.grams.back().raw.terms.push_back({unesc(n), code});
    } else if (w == "rule") {
      if (c.grams.empty()) return false;
      RawRule r;
      std::string a;
      ls >> a; r.lhs = unesc(a);
      ls >> a; // ':'
      while (ls >> a && a != "#") r.rhs.push_back(unesc(a));
      std::string kind, name, mode;
      ls >> kind >> name >> r.cost >> mode;
      r.has_anode = kind == "A";
      if (r.has_anode) r.anode = unesc(name);
      r.transl_null = mode == "null";
      long t;
      while (ls >> t) r.transl.push_back((int)t);
      c.grams.back().raw.rules.push_back(r);
    } else if (w == "text") {
      std::string h; ls >> h;
      std::string t;
      for (size_t i = 0; i + 1 < h.size(); i += 2) t += (char)strtol(h.substr(i, 2).c_str(), nullptr, 16);
      if (c.grams.empty()) return false;
      c.grams.back().text = t;
    } else if (w == "input") {
      int idx; std::string colon; ls >> idx >> colon;
      std::vector<int> v; long t;
      while (ls >> t) v.push_back((int)t);
      c.inputs.push_back(v);
    } else if (w == "op") {
      Op op; ls >> op.kind; long t;
      while (ls >> t) op.a.push_back(t);
      c.ops.push_back(op);
    } else if (w == "par") {
      std::string k; long v; ls >> k >> v; c.par[k] = v;
    } else if (w == "choices") {
      unsigned long v;
      while (ls >> v) c.choices.push_back((uint32_t)v);
    }
  }
  return !c.prop.empty();
}

// ---------------------------------------------------------------- choice source
// All randomness comes from a vector produced by rapidcheck; when it is
// exhausted every further choice is 0 (the simplest), so any vector decodes
// to a valid case and shrinking the vector shrinks the case.
struct Choices {
  const std::vector<uint32_t> &v;
  size_t p = 0;
  explicit Choices(const std::vector<uint32_t> &v_) : v(v_) {}
  uint32_t raw() { return p < v.size() ? v[p++] : 0; }
  int upto(int n) { return n <= 0 ? 0 : (int)(raw() % (uint32_t)(n + 1)); }   // 0..n
  int range(int a, int b) { return a + upto(b - a); }
  bool chance(int pct) { return (int)(raw() % 100) >= 100 - pct; }               // raw 0 -> false (unless pct = 100)
  bool flip() { return raw() & 1; }
  bool exhausted() const { return p >= v.size(); }
};

} // namespace vf
