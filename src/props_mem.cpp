// C13: the caller owns the tree memory.
#include "props.hpp"

namespace vf {
namespace {

Case genC13(Choices &c, int tier) {
  Case cs;
  cs.prop = "C13";
  GramOpts o; o.ambiguityBias = 30; o.errorPct = 30;
  if (tier) { o.maxT = 4; o.maxN = 5; o.extraRules += 2; }
  GramDef gd;
  gd.raw = genGrammar(c, o);
  if (c.chance(12)) for (auto &r : gd.raw.rules) if (r.has_anode && c.chance(40)) r.anode = ""; // an abstract node may have the empty name
  gd.strict = c.flip();
  if (!classify(gd.raw, gd.strict).empty() && classify(gd.raw, !gd.strict).empty()) gd.strict = !gd.strict;
  cs.grams.push_back(gd);
  Gram g;
  if (!toGram(gd.raw, g) || !classify(gd.raw, gd.strict).empty()) return cs;
  std::vector<int> ml = minLen(g);
  int np = c.range(1, 3);
  for (int k = 0; k < np; k++) cs.inputs.push_back(toCodes(g, genInputIdx(c, g, ml, tier ? 12 : 8, c.chance(75) ? 0 : 1)));
  cs.par["one"] = c.flip();
  cs.par["cost"] = c.flip();
  cs.par["rec"] = c.chance(65);
  cs.par["la"] = c.upto(2);
  cs.par["freemode"] = c.upto(2);
  cs.par["order"] = c.upto(5); // order in which the trees are released
  return cs;
}

Verdict runC13(const Case &cs) {
  Verdict v;
  if (cs.grams.empty()) { v.st = V_DISCARD; return v; }
  const GramDef &gd = cs.grams[0];
  Gram g;
  if (!toGram(gd.raw, g) || !classify(gd.raw, gd.strict).empty()) { v.st = V_DISCARD; v.labels.insert("discard:grammar-rejected"); return v; }
  long base = g_lib.live_blocks;
  Binding *b = newCBinding();
  if (!b->create()) { v.fail("yaep_create_grammar returned NULL"); return v; }
  if (defineGrammar(*b, gd) != 0) { v.st = V_DISCARD; v.labels.insert("discard:definition-disagreement"); return v; }
  Conf cf; cf.la = (int)cs.P("la", 1); cf.one = (int)cs.P("one", 1); cf.cost = (int)cs.P("cost"); cf.rec = (int)cs.P("rec"); cf.freemode = (int)cs.P("freemode");
  v.labels.insert("free:" + std::string(cf.freemode == 0 ? "caller-free" : cf.freemode == 1 ? "NULL-free" : "default-allocator"));
  struct Kept { yaep_tree_node *root; int epoch; std::set<Tr> den; bool ovf; long nTerm; std::set<void *> blocks; bool cost; bool one; };
  std::vector<Kept> kept;
  g_tree.reset();
  yaep_verif.rec_limit = REC_LIMIT;
  bool cutShort = false;
  for (auto &codes : cs.inputs) {
    ParseOpts po; po.keep_tracking = true; po.free_tree = false; po.den_limit = 2000;
    Outcome o = runParse(*b, codes, cf, po);
    v.parses++;
    std::string where = " [" + cf.str() + "] got " + o.str();
    if (o.exploded()) { v.labels.insert(o.explosionLabel()); cutShort = true; continue; } // the unfinished tree of a parse cut short by the harness belongs to nobody
    if (o.rc != 0) { v.fail("yaep_parse returned " + std::to_string(o.rc) + where); return v; }
    if (o.t_bad_free) { v.fail("parse_free received a block that parse_alloc did not return during this parse, or received it twice: " + o.t_bad + where); return v; }
    if (cf.freemode == 1 && (g_tree.n_free || g_tree.n_free_null)) { v.fail("parse_free is NULL but something was released" + where); return v; }
    if (!o.rootptr) { v.labels.insert("no-tree"); if (g_tree.liveOf(o.epoch) != 0 && cf.freemode == 0) { v.fail("no tree returned but " + std::to_string(g_tree.liveOf(o.epoch)) + " parse_alloc blocks of this parse stay unreleased" + where); return v; } continue; }
    if (!o.tree.ok) { v.fail("malformed tree: " + o.tree.problem + where); return v; }
    Kept k; k.root = o.rootptr; k.epoch = o.epoch; k.den = o.tree.den; k.ovf = o.tree.overflow; k.nTerm = 0; k.cost = cf.cost; k.one = cf.one;
    collectBlocks(k.root, k.blocks, k.nTerm);
    if (cf.freemode != 2) {
      for (void *p : k.blocks) {
        auto f = g_tree.owner.find(p);
        if (f == g_tree.owner.end()) { v.fail("a block reachable from the returned root is not a live parse_alloc block (already released or foreign)" + where); return v; }
        if (f->second != o.epoch) { v.fail("a block reachable from the root belongs to another parse" + where); return v; }
      }
      // caller-supplied parse_free: yaep must have released everything of this parse that is not part of the tree
      if (cf.freemode == 0 && g_tree.liveOf(o.epoch) != (long)k.blocks.size()) {
        v.fail("after yaep_parse " + std::to_string(g_tree.liveOf(o.epoch)) + " blocks of this parse are allocated but only " + std::to_string(k.blocks.size()) + " are reachable from the root (unreachable blocks can never be released by yaep_free_tree)" + where);
        return v;
      }
    }
    if (o.tree.n_shared) v.labels.insert("m:shared-node");
    if (o.t_free > 0) v.labels.insert(cf.cost ? "m:blocks-released-during-parse(cost)" : "m:blocks-released-during-parse");
    if (o.tree.has_nil) v.labels.insert("m:nil-used");
    if (o.tree.has_err) v.labels.insert("m:error-node-used");
    if (o.tree.n_shared || o.t_free > 0) v.nontrivial = true;
    kept.push_back(k);
  }
  if (kept.size() >= 2) { v.nontrivial = true; v.labels.insert("m:several-trees-alive"); }
  // the trees outlive the grammar
  b->destroy();
  delete b;
  for (auto &k : kept) {
    TreeInfo ti;
    analyseTree(k.root, k.cost, k.one, 2000, ti);
    if (!ti.ok) { v.fail("tree malformed after yaep_free_grammar: " + ti.problem); return v; }
    if (ti.overflow != k.ovf || ti.den != k.den) { v.fail("tree changed by yaep_free_grammar"); return v; }
  }
  if (cf.freemode == 1) { v.labels.insert("m:not-freed(NULL parse_free)"); return v; }
  // release in a generated order
  std::vector<int> ord;
  for (size_t i = 0; i < kept.size(); i++) ord.push_back(i);
  long perm = cs.P("order");
  for (int i = (int)ord.size() - 1; i > 0; i--) { std::swap(ord[i], ord[perm % (i + 1)]); perm /= (i + 1); }
  for (int i : ord) {
    Kept &k = kept[i];
    g_tree.epoch = k.epoch;
    g_tree.n_bad_free = 0; g_tree.bad.clear();
    resetTermcb();
    Binding *fb = newCBinding(); // free_tree needs no object
    fb->free_tree(k.root, cf.freemode == 0 ? tree_free : nullptr, termcbFn);
    delete fb;
    if (termcbCalls() != k.nTerm) { v.fail("yaep_free_tree called the terminal callback " + std::to_string(termcbCalls()) + " times for " + std::to_string(k.nTerm) + " TERM nodes"); return v; }
    if (cf.freemode == 0) {
      if (g_tree.n_bad_free) { v.fail("yaep_free_tree released a block twice or a foreign block: " + g_tree.bad); return v; }
      if (g_tree.liveOf(k.epoch) != 0) { v.fail("yaep_free_tree left " + std::to_string(g_tree.liveOf(k.epoch)) + " parse_alloc blocks of the parse unreleased"); return v; }
    }
  }
  if (cutShort) return v;
  if (cf.freemode == 2 && g_lib.live_blocks != base) { v.fail("default allocator: " + std::to_string(g_lib.live_blocks - base) + " library blocks remain after yaep_free_grammar and yaep_free_tree"); return v; }
  if (cf.freemode == 0 && g_lib.live_blocks != base) { v.fail(std::to_string(g_lib.live_blocks - base) + " internal library blocks remain after yaep_free_grammar (leak)"); return v; }
  return v;
}


// ================================================================= C12 (rapidcheck side; the libFuzzer targets are in src/fuzz)
Case genC12(Choices &c, int tier) {
  Case cs;
  cs.prop = "C12";
  GramOpts o; o.ambiguityBias = 20; o.errorPct = 60;
  if (tier) { o.maxT = 4; o.maxN = 5; o.extraRules += 2; }
  GramDef gd;
  bool wide = c.chance(12);
  WideInfo wi;
  gd.raw = wide ? genWideGrammar(c, o, wi) : genGrammar(c, o);
  gd.strict = c.flip();
  if (!classify(gd.raw, gd.strict).empty() && classify(gd.raw, !gd.strict).empty()) gd.strict = !gd.strict;
  cs.grams.push_back(gd);
  Gram g;
  if (!toGram(gd.raw, g) || !classify(gd.raw, gd.strict).empty()) return cs;
  std::vector<int> ml = minLen(g);
  if (wide) {
    // hundreds of symbols: one long input visiting most copies, clean or with a few damaged places
    cs.par["wide"] = wi.copies;
    std::vector<int> w = genWideInput(c, g, ml, wi, tier ? 6000 : 3000);
    int damage = c.chance(40) ? c.range(1, 3) : 0;
    for (int d = 0; d < damage && !w.empty(); d++) { int pos = c.upto((int)w.size() - 1); if (c.flip()) w.erase(w.begin() + pos); else w[pos] = w[c.upto((int)w.size() - 1)]; }
    cs.inputs.push_back(toCodes(g, w));
    cs.par["one"] = c.upto(2) - 1; cs.par["cost"] = c.flip(); cs.par["rec"] = c.chance(60); cs.par["la"] = c.chance(60) ? 2 : c.range(-1, 3); cs.par["match"] = c.range(1, 6);
    cs.par["freemode"] = c.upto(2);
    return cs;
  }
  // noisy inputs: several errors per input, up to 60 tokens (recovery search stress)
  for (int k = 0; k < 2; k++) {
    std::vector<int> w;
    int parts = c.range(1, tier ? 10 : 6);
    for (int p = 0; p < parts; p++) { std::vector<int> f = genInputIdx(c, g, ml, 8, c.upto(2)); w.insert(w.end(), f.begin(), f.end()); }
    if (w.size() > 60) w.resize(60);
    cs.inputs.push_back(toCodes(g, w));
  }
  cs.par["one"] = c.upto(2) - 1; cs.par["cost"] = c.flip(); cs.par["rec"] = c.chance(80); cs.par["la"] = c.range(-1, 3); cs.par["match"] = c.range(1, 6);
  cs.par["freemode"] = c.upto(2);
  return cs;
}
Verdict runC12(const Case &cs) {
  Verdict v;
  if (cs.grams.empty()) { v.st = V_DISCARD; return v; }
  long base = g_lib.live_blocks;
  Binding *b = newCBinding();
  if (!b->create()) { v.fail("yaep_create_grammar returned NULL"); return v; }
  int rc = defineGrammar(*b, cs.grams[0]);
  if (strnlen(b->error_message(), 202) > 200) { v.fail("error message does not fit its buffer"); return v; }
  if (rc != 0) { v.st = V_DISCARD; v.labels.insert("discard:definition-failed"); b->destroy(); delete b; return v; }
  Conf cf; cf.la = (int)cs.P("la", 1); cf.one = (int)cs.P("one", 1); cf.cost = (int)cs.P("cost"); cf.rec = (int)cs.P("rec", 1); cf.match = (int)cs.P("match", 3); cf.freemode = (int)cs.P("freemode");
  bool abnormal = false;
  for (auto &codes : cs.inputs) {
    yaep_verif.rec_limit = cs.P("reclimit", REC_LIMIT);
    ParseOpts po; po.den_limit = 200;
    if (codes.size() > 400) po.analyse_tree = false; // the harness's tree walker recurses once per tree level: not for trees thousands of levels deep
    Outcome o = runParse(*b, codes, cf, po);
    v.parses++;
    std::string where = " [" + cf.str() + " tokens=" + std::to_string(codes.size()) + "] got " + o.str().substr(0, 400);
    if (o.capped) { abnormal = true; v.labels.insert("memory-cap"); continue; }
    if (o.hook.alt_explosion) {
      abnormal = true;
      if (kfListed("KF-C12-all-parses-translation-explosion")) { v.known = "KF-C12-all-parses-translation-explosion"; if (v.st == V_PASS) v.st = V_KNOWN; v.labels.insert("attributed:KF-C12-all-parses-translation-explosion"); continue; }
      v.fail("building all parses created more than " + std::to_string(ALT_LIMIT) + " alternative nodes (one per derivation: unbounded time and memory)" + where); return v;
    }
    if (o.exploded()) {
      abnormal = true;
      if (kfListed("KF-C12-recovery-search-explosion")) { v.known = "KF-C12-recovery-search-explosion"; if (v.st == V_PASS) v.st = V_KNOWN; v.labels.insert("attributed:KF-C12-recovery-search-explosion"); continue; }
      v.fail("error recovery examined more than " + std::to_string(cs.P("reclimit", REC_LIMIT)) + " alternatives for one syntax error (unbounded time and memory)" + where); return v;
    }
    if (o.rc == E_NOMEM && g_lib.cap_hits) { abnormal = true; v.labels.insert("memory-cap"); continue; }
    if (o.rc != 0 && o.rc != E_BADTOK) { v.fail("yaep_parse returned " + std::to_string(o.rc) + where); return v; }
    if (o.rc == 0 && o.root && !o.tree.ok) { v.fail("malformed tree: " + o.tree.problem + where); return v; }
    if (o.t_bad_free) { v.fail("parse_free misuse: " + o.t_bad + where); return v; }
    if (!o.errs.empty()) v.labels.insert("syntax-errors:" + std::string(o.errs.size() >= 3 ? ">=3" : "1-2"));
    if (codes.size() >= 20 && o.errs.size() >= 2) v.nontrivial = true;
    if (codes.size() >= 5) v.nontrivial = true;
    if (cs.P("wide")) v.labels.insert(std::string("wide-grammar:") + (cs.P("wide") > 255 ? ">255-copies" : "<=255-copies") + (cf.la >= 2 ? ",la=2" : ""));
  }
  b->destroy(); delete b;
  if (!abnormal && g_lib.live_blocks != base) { v.fail("library holds " + std::to_string(g_lib.live_blocks - base) + " blocks after yaep_free_grammar"); return v; }
  return v;
}

} // namespace

extern const PropDef g_props_misc[] = {
    {"C13", genC13, runC13,
     "ambiguity-biased random CFG (30% with `error' rules) x 1-3 parses on one object (trees kept alive together) x one_parse x cost x recovery x "
     "lookahead x allocator{tracking alloc+free, tracking alloc+NULL free, default}; grammar definition from heap copies destroyed right after the "
     "defining call; oracle = model of the live parse_alloc blocks per parse: every parse_free argument live and of the same parse, every block "
     "reachable from the root live, no unreachable block left, trees identical after yaep_free_grammar, yaep_free_tree (generated order) "
     "releases every block once, terminal callback once per TERM node, library holds nothing afterwards. Non-trivial: shared node, or blocks "
     "released during the parse, or >= 2 trees alive.",
     20},
    {"C12", genC12, runC12,
     "rapidcheck side of C12 (the libFuzzer side is described in the evidence key `fuzz'): random CFG (60% with `error' rules) x 2 noisy inputs "
     "of up to 60 tokens assembled from sentences, mutated sentences and random strings x arbitrary flag values x three allocator modes; 12% of the "
     "cases scale a small grammar up to 20-800 renamed copies or bracket pairs (up to ~5000 symbols, dense/offset/sparse codes) with one input "
     "of up to 3000 (thorough 6000) tokens visiting the copies; oracle: "
     "no sanitizer report, documented return codes only, well-formed tree, no parse_free misuse, bounded recovery search (hook H3 limit), no "
     "memory held afterwards. Non-trivial: input of >= 5 tokens.",
     40},
};
extern const int g_nprops_misc = sizeof(g_props_misc) / sizeof(g_props_misc[0]);

} // namespace vf
