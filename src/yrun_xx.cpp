// Binding for the C++ interface (class yaep of libyaep++).
#include "yrun.hpp"
namespace vf {
struct XBinding : Binding {
  yaep *y = nullptr;
  bool create() override { y = new yaep(); return y != nullptr; }
  int read_grammar(int s, const char *(*rt)(int *), const char *(*rr)(const char ***, const char **, int *, int **)) override { return y->read_grammar(s, rt, rr); }
  int parse_grammar(int s, const char *d) override { return y->parse_grammar(s, d); }
  int set_la(int v) override { return y->set_lookahead_level(v); }
  int set_dbg(int v) override { return y->set_debug_level(v); }
  int set_one(int v) override { return y->set_one_parse_flag(v); }
  int set_cost(int v) override { return y->set_cost_flag(v); }
  int set_rec(int v) override { return y->set_error_recovery_flag(v); }
  int set_match(int v) override { return y->set_recovery_match(v); }
  int parse(int (*rd)(void **), void (*se)(int, void *, int, void *, int, void *), void *(*al)(int), void (*fr)(void *), yaep_tree_node **root, int *amb) override {
    return y->parse(rd, se, al, fr, root, amb);
  }
  int error_code() override { return y->error_code(); }
  const char *error_message() override { return y->error_message(); }
  void destroy() override { delete y; y = nullptr; }
  void free_tree(yaep_tree_node *root, void (*fr)(void *), void (*cb)(yaep_term *)) override { yaep::free_tree(root, fr, cb); }
  bool alive() override { return y != nullptr; }
};
Binding *newXBinding() { return new XBinding(); }
} // namespace vf
