// Adapter: runs grammar definitions and parses on the real library and turns
// what comes back into comparable values.  Everything here runs inside a
// forked child of the driver.
#pragma once
#include "case.hpp"
#include "yapi.hpp"
#include <unordered_map>
#include <unordered_set>

namespace vf {

// harness-set limit on the alternatives one error_recovery call may examine (hook H3): far above anything a bounded search
// needs on the generated sizes; beyond it the parse ends with YAEP_NO_MEMORY and the case counts as "recovery search explosion"
static const long REC_LIMIT = 2000000;
// harness-set limit on the alternative nodes one make_parse may create (hook H5): with all parses requested, rules that pass a
// translation through create one alternative per derivation (3^n for `A : b A A # 2'); beyond the limit the parse ends with
// YAEP_NO_MEMORY and the case counts as "translation explosion"
static const long ALT_LIMIT = 500000;

// ------------------------------------------------------------ library allocator wrappers
// (the library objects' malloc/calloc/realloc/free are renamed to verif_* by objcopy)
struct LibAlloc {
  long n_requests = 0;      // malloc+calloc+realloc calls (allocation requests)
  long n_frees = 0;
  long bytes_requested = 0; // sum of request sizes
  long live_blocks = 0;
  long live_bytes = 0;
  long peak_bytes = 0;
  long fail_at = 0;         // >0: that request returns NULL (one shot)
  long failed = 0;          // how many requests were failed
  long cap_bytes = 1L << 30; // requests beyond this much live memory fail ("out of memory")
  long cap_hits = 0;
  bool poison = true;
};
extern LibAlloc g_lib;

// ------------------------------------------------------------ caller's tree allocator (tracking)
struct TreeAlloc {
  std::unordered_map<void *, int> live;  // block -> size
  std::unordered_map<void *, int> owner; // block -> epoch (parse) that allocated it
  int epoch = 0;                          // current parse; tree_free accepts only blocks of this epoch
  long n_alloc = 0, n_free = 0, n_free_null = 0;
  long n_bad_free = 0; // free of a block that is not live (foreign or double) or belongs to another parse
  std::string bad;
  void reset() { *this = TreeAlloc(); }
  void newEpoch() { epoch++; n_alloc = n_free = n_free_null = n_bad_free = 0; bad.clear(); }
  long liveOf(int e) const { long n = 0; for (auto &p : owner) if (p.second == e) n++; return n; }
};
extern TreeAlloc g_tree;
void *tree_alloc(int n);
void tree_free(void *p);

// ------------------------------------------------------------ configuration / outcome
struct Conf {
  int la = 1, one = 1, cost = 0, rec = 0, match = 3, dbg = 0;
  int freemode = 0; // 0: tracking alloc + tracking free, 1: tracking alloc + NULL free, 2: default allocator (NULL, NULL)
  std::string str() const {
    char b[128];
    snprintf(b, sizeof b, "la=%d one=%d cost=%d rec=%d match=%d dbg=%d free=%d", la, one, cost, rec, match, dbg, freemode);
    return b;
  }
};
struct ErrCall {
  int e, s, r;
  long ea, sa, ra; // attribute as token index, -1 = NULL, -2 = foreign pointer
  bool operator==(const ErrCall &o) const { return e == o.e && s == o.s && r == o.r && ea == o.ea && sa == o.sa && ra == o.ra; }
  std::string str() const {
    char b[160];
    snprintf(b, sizeof b, "(err=%d@%ld ign=[%d@%ld,%d@%ld))", e, ea, s, sa, r, ra);
    return b;
  }
};
struct TreeInfo {
  bool ok = true;          // structurally well formed
  std::string problem;
  std::set<Tr> den;        // denoted translations (own-cost annotated strings)
  bool overflow = false;
  long root_cost = -1;     // cost field of root if ANODE (or of its alternatives)
  long n_nodes = 0, n_alt = 0, n_anode = 0, n_term = 0;
  long n_shared = 0;       // nodes with in-degree >= 2
  bool has_nil = false, has_err = false;
  std::vector<std::pair<long, long>> term_attrs; // (code, attr index) of every TERM node
};
struct Outcome {
  int rc = -999;
  bool root = false;
  int amb = 0;
  std::vector<ErrCall> errs;
  int errcode = 0;
  std::string errmsg;
  TreeInfo tree;
  // allocation accounting of this parse
  long t_alloc = 0, t_free = 0, t_bad_free = 0, t_live_after_parse = 0, t_live_after_free = 0;
  long termcb_calls = 0;
  std::string t_bad;
  yaep_verif_info hook;
  yaep_tree_node *rootptr = nullptr; // valid only when the tree was not freed
  int epoch = 0;
  bool capped = false; // YAEP_NO_MEMORY because the harness's cap on live library memory (1 GB) refused a request
  bool exploded() const { return hook.rec_explosion || hook.alt_explosion || capped; }
  // label under which a case that hit one of the harness limits is counted as excluded
  std::string explosionLabel() const { return hook.alt_explosion ? "excluded:KF-all-parses-translation-explosion" : hook.rec_explosion ? "excluded:F27-recovery-explosion" : "excluded:memory-cap"; }
  std::string str() const;
  // the tuple the properties C09/C14/C16 compare
  std::string tupleStr() const;
};

// abstract binding so that the same code drives libyaep and class yaep
struct Binding {
  virtual ~Binding() {}
  virtual bool create() = 0;
  virtual int read_grammar(int strict, const char *(*rt)(int *), const char *(*rr)(const char ***, const char **, int *, int **)) = 0;
  virtual int parse_grammar(int strict, const char *d) = 0;
  virtual int set_la(int) = 0;
  virtual int set_dbg(int) = 0;
  virtual int set_one(int) = 0;
  virtual int set_cost(int) = 0;
  virtual int set_rec(int) = 0;
  virtual int set_match(int) = 0;
  virtual int parse(int (*rd)(void **), void (*se)(int, void *, int, void *, int, void *), void *(*al)(int), void (*fr)(void *),
                    yaep_tree_node **root, int *amb) = 0;
  virtual int error_code() = 0;
  virtual const char *error_message() = 0;
  virtual void destroy() = 0;
  virtual void free_tree(yaep_tree_node *root, void (*fr)(void *), void (*cb)(yaep_term *)) = 0;
  virtual bool alive() = 0;
};
Binding *newCBinding();
Binding *newXBinding(); // only in binaries linked with libyaep++ (weak otherwise)

// define `gd' on `b' (callbacks or text); heap copies of every string/array are
// handed over and destroyed right after the call (C13 last clause).
int defineGrammar(Binding &b, const GramDef &gd);

// Parse `codes' on `b' with configuration `cf'.  When `keep_tree' is null the
// tree is analysed and released (per freemode); attrs: token i carries &g_attrs[i].
struct ParseOpts {
  bool analyse_tree = true;
  bool cost_mode_own = true; // derive own cost by subtraction when cf.cost
  long den_limit = 5000;
  bool free_tree = true;
  bool keep_tracking = false; // do not reset the tree allocator: start a new epoch (several live trees)
  bool apply_settings = true; // call the six setters with cf first; false: parse with whatever the object holds (histories)
};
// every block reachable from root: node blocks and name blocks; counts distinct TERM nodes
void collectBlocks(yaep_tree_node *root, std::set<void *> &blocks, long &nTerm);
long termcbCalls();
void resetTermcb();
void termcbFn(yaep_term *);
Outcome runParse(Binding &b, const std::vector<int> &codes, const Conf &cf, const ParseOpts &po = ParseOpts());

// analyse a tree (exposed for C13)
void analyseTree(yaep_tree_node *root, bool cost_mode, bool one_parse, long limit, TreeInfo &ti);

// in a process forked from the worker: sanitizer reports keep going to the worker's report descriptor (the runtime would
// otherwise reopen its report file as "./.<pid>" after the fork)
void reattachReports();

void setAttrBase(long n); // make sure the attribute array holds n entries
long attrIndex(void *p);

} // namespace vf
