#pragma once
#include "gen.hpp"
#include "yrun.hpp"

namespace vf {

enum { V_PASS = 0, V_FAIL = 1, V_DISCARD = 2, V_KNOWN = 3, V_INCONCLUSIVE = 4 };
struct Verdict {
  int st = V_PASS;
  std::string msg;               // failure description
  std::set<std::string> labels;  // class labels of this case (for the distribution in the evidence)
  bool nontrivial = false;
  std::string known;             // id of the known finding the case was attributed to
  long parses = 0;
  void fail(const std::string &m) { if (st != V_FAIL) { st = V_FAIL; msg = m; } }
};

struct PropDef {
  const char *id;
  Case (*gen)(Choices &, int tier);          // tier 0 quick, 1 thorough
  Verdict (*run)(const Case &);
  const char *rule;                          // generation + non-triviality rule for the evidence
  int timeout_s;
};
const PropDef *findProp(const std::string &id);
extern const PropDef g_props[];
extern const int g_nprops;

// known findings (loaded from /verif/known_findings.json by the driver)
bool kfListed(const std::string &id);
void kfLoad(const std::string &path);
std::string rootDir(); // the directory that holds check, fixtures/ and known_findings.json (from the location of the executable)
std::string kfWhat(const std::string &id);

} // namespace vf
