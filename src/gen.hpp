// Generators: decode a choice sequence into cases.  Constructive (no
// rejection inside): every vector decodes to something the API accepts as
// input; whether yaep must accept the *grammar* is decided by the reference
// classifier afterwards.
#pragma once
#include "case.hpp"
#include <algorithm>

namespace vf {

struct GramOpts {
  int maxT = 3, maxN = 4, extraRules = 4, maxRhs = 3;
  int errorPct = 0;        // chance that a grammar uses the reserved terminal `error'
  bool fullYield = false;  // every rhs symbol translated in order under an abstract node
  bool plainCodes = false; // character codes only
  int ambiguityBias = 0;   // 0..100: duplicate rules / E : E E shapes
  bool deterministicNames = true;
  int regimeW[5] = {30, 20, 20, 20, 10}; // parse properties: weights of the regimes small / big / list / sequence / chain
};

inline std::string tname(int i) { return std::string(1, (char)('a' + i)); }
inline std::string nname(int i) { return std::string(1, (char)('A' + i)); }

// translations, abstract node names and costs for every rule of g
inline void assignTranslations(Choices &c, RawGram &g, const GramOpts &o, bool shareNames) {
  int nR = g.rules.size();
  for (int r = 0; r < nR; r++) {
    RawRule &ru = g.rules[r];
    int len = ru.rhs.size();
    ru.anode = shareNames && c.flip() ? "x" : "n" + std::to_string(r);
    ru.cost = c.upto(3);
    if (o.fullYield) {
      ru.has_anode = true;
      for (int k = 0; k < len; k++) ru.transl.push_back(k);
    } else {
      int m = c.upto(6);
      if (m <= 3) { // abstract node: permutation of a subset, nil padded
        ru.has_anode = true;
        std::vector<int> idx;
        for (int k = 0; k < len; k++) idx.push_back(k);
        for (int k = len - 1; k > 0; k--) std::swap(idx[k], idx[c.upto(k)]);
        if (m == 0) std::sort(idx.begin(), idx.end());
        int take = m == 0 ? len : c.upto(len);
        for (int k = 0; k < take; k++) {
          if (c.chance(12)) ru.transl.push_back(NILNUM);
          ru.transl.push_back(idx[k]);
        }
        if (c.chance(12)) ru.transl.push_back(NILNUM);
      } else if (m == 4 && len > 0) ru.transl.push_back(c.upto(len - 1)); // pass-through
      else if (m == 5) ru.transl.push_back(NILNUM);                         // `# -'
      else if (c.chance(30)) ru.transl_null = true;                         // no translation at all
    }
  }
}

inline RawGram genGrammar(Choices &c, const GramOpts &o) {
  RawGram g;
  int nT = c.range(1, o.maxT), nN = c.range(1, o.maxN);
  int codeMode = o.plainCodes ? 0 : c.upto(4);
  for (int t = 0; t < nT; t++) {
    int code;
    switch (codeMode) {
    default: code = 'a' + t; break;
    case 2: code = t; break;                 // dense from 0
    case 3: code = 5 + t * 20011; break;     // sparse: no translation vector
    case 4: code = 256 + 3 * t; break;       // gaps between declared codes
    }
    g.terms.push_back({tname(t), code});
  }
  bool useErr = c.chance(o.errorPct);
  int nR = nN + c.upto(o.extraRules);
  bool shareNames = c.chance(15);
  // pass 1: left- and right-hand sides
  for (int r = 0; r < nR; r++) {
    RawRule ru;
    int lhs = r < nN ? r : c.upto(nN - 1);
    ru.lhs = nname(lhs);
    int len = c.upto(o.maxRhs);
    if (c.chance(6)) len = o.maxRhs + 1;
    bool firstOfNt = r < nN;
    for (int k = 0; k < len; k++) {
      int kind = c.upto(9);
      if (useErr && c.chance(12)) ru.rhs.push_back("error");
      else if (kind < 4 || (firstOfNt && lhs == nN - 1)) ru.rhs.push_back(tname(c.upto(nT - 1)));
      else if (firstOfNt) ru.rhs.push_back(nname(c.range(std::min(lhs + 1, nN - 1), nN - 1))); // keeps most nonterminals productive
      else ru.rhs.push_back(nname(c.upto(nN - 1)));
    }
    if (o.ambiguityBias && c.chance(o.ambiguityBias) && !g.rules.empty()) {
      // copy the shape of an earlier rule (same rhs => ambiguity) or make E : E E
      if (c.flip()) { const RawRule &p = g.rules[c.upto((int)g.rules.size() - 1)]; ru.lhs = p.lhs; ru.rhs = p.rhs; }
      else { ru.rhs = {ru.lhs, ru.lhs}; if (c.flip()) ru.rhs.insert(ru.rhs.begin() + 1, tname(c.upto(nT - 1))); }
    }
    g.rules.push_back(ru);
  }
  if (useErr) { // at least one rule really uses `error'
    bool has = false;
    for (auto &r : g.rules) for (auto &x : r.rhs) if (x == "error") has = true;
    if (!has) { RawRule &host = g.rules[c.upto((int)g.rules.size() - 1)]; host.rhs.insert(host.rhs.begin() + c.upto((int)host.rhs.size()), "error"); }
  }
  // pass 2: usually make every nonterminal reachable from the start symbol
  if (c.chance(80)) {
    for (int round = 0; round < nN; round++) {
      std::set<std::string> reach{g.rules[0].lhs};
      bool ch = true;
      while (ch) { ch = false; for (auto &r : g.rules) if (reach.count(r.lhs)) for (auto &s : r.rhs) if (s.size() == 1 && s[0] >= 'A' && s[0] <= 'Z' && reach.insert(s).second) ch = true; }
      std::string miss;
      for (int n = 0; n < nN; n++) if (!reach.count(nname(n))) { miss = nname(n); break; }
      if (miss.empty()) break;
      std::vector<int> cand;
      for (size_t r = 0; r < g.rules.size(); r++) if (reach.count(g.rules[r].lhs)) cand.push_back(r);
      RawRule &host = g.rules[cand[c.upto((int)cand.size() - 1)]];
      host.rhs.insert(host.rhs.begin() + c.upto((int)host.rhs.size()), miss);
    }
  }
  // pass 2b: usually give every nonterminal a terminating rule
  if (c.chance(85)) {
    std::set<std::string> prod;
    bool ch = true;
    auto isNt = [](const std::string &s) { return s.size() == 1 && s[0] >= 'A' && s[0] <= 'Z'; };
    while (ch) {
      ch = false;
      for (auto &r : g.rules) {
        if (prod.count(r.lhs)) continue;
        bool ok = true;
        for (auto &s : r.rhs) if (isNt(s) && !prod.count(s)) ok = false;
        if (ok) { prod.insert(r.lhs); ch = true; }
      }
    }
    for (int n = 0; n < nN; n++)
      if (!prod.count(nname(n))) {
        RawRule ru;
        ru.lhs = nname(n);
        if (c.chance(75)) ru.rhs.push_back(tname(c.upto(nT - 1)));
        g.rules.push_back(ru);
      }
  }
  // the construction above numbers nonterminals top-down (first rules refer to later nonterminals); half of the grammars
  // get another rule order (the first rule still belongs to the start symbol): rule order decides the numbering of the
  // nonterminals, the order of situations in a set and the order in which fix-points visit the rules
  if (c.chance(50) && g.rules.size() > 2) {
    std::string start = g.rules[0].lhs;
    for (size_t k = g.rules.size() - 1; k > 0; k--) std::swap(g.rules[k], g.rules[c.upto((int)k)]);
    for (size_t k = 0; k < g.rules.size(); k++) if (g.rules[k].lhs == start) { std::swap(g.rules[0], g.rules[k]); break; }
  }
  assignTranslations(c, g, o, shareNames);
  return g;
}

// Sequence template: S : C1 C2 ... Ck where every component has a few short alternatives over a very small alphabet
// (variable length, empty, duplicated right-hand sides with other costs, one level of nesting): many ways to split the
// input between the components, middle components ending at one place with different origins, shared subtrees.
inline RawGram genSeqGrammar(Choices &c, const GramOpts &o) {
  RawGram g;
  int nT = c.range(1, 3);
  for (int t = 0; t < nT; t++) g.terms.push_back({tname(t), 'a' + t});
  int k = c.range(2, 4);
  int nN = 1 + k + (c.chance(40) ? 1 : 0); // S, components, optional nested one
  static const int sameBias[] = {60, 25, 85}; // how often the first letter is used: many / few / very many ways to split an input
  int same = sameBias[c.upto(2)];
  auto term = [&]() { return tname(c.chance(same) ? 0 : c.upto(nT - 1)); };
  RawRule top; top.lhs = nname(0);
  for (int i = 1; i <= k; i++) {
    if (c.chance(15)) top.rhs.push_back(term());
    top.rhs.push_back(nname(i));
  }
  if (c.chance(15)) top.rhs.push_back(term());
  g.rules.push_back(top);
  for (int i = 1; i < nN; i++) {
    int nr = c.range(1, 3);
    size_t first = g.rules.size();
    for (int j = 0; j < nr; j++) {
      RawRule r; r.lhs = nname(i);
      if (j > 0 && c.chance(35)) r.rhs = g.rules[first + c.upto(j - 1)].rhs; // same right-hand side again
      else {
        int shape = c.upto(5);
        if (shape == 5 && (nN - 1 <= k || i == nN - 1)) shape = 1; // only components refer to the nested nonterminal
        switch (shape) {
        case 0: break;                                             // empty
        default: r.rhs = {term()}; break;
        case 2: r.rhs = {term(), term()}; break;
        case 3: r.rhs = {term(), term(), term()}; break;
        case 5: r.rhs = {nname(nN - 1)}; if (c.flip()) r.rhs.push_back(term()); break;
        }
      }
      g.rules.push_back(r);
    }
  }
  if (nN - 1 > k) { // the nested nonterminal must be used
    bool used = false;
    for (auto &r : g.rules) for (auto &x : r.rhs) if (x == nname(nN - 1)) used = true;
    if (!used) { RawRule r; r.lhs = nname(c.range(1, k)); r.rhs = {nname(nN - 1)}; g.rules.push_back(r); }
  }
  assignTranslations(c, g, o, c.chance(15));
  return g;
}

// Items with a nullable tail: A : B X1 .. Xk where every Xi is empty or one token and B has alternatives of different
// lengths over the same few letters, optionally behind a nullable prefix.  In a list of such items the same set core
// (same start situations) comes back with other origins, and several situations reach the end of the rule through
// different runs of skipped empty symbols.
inline RawGram genTailGrammar(Choices &c, const GramOpts &o) {
  RawGram g;
  int nT = c.range(2, 4);
  for (int t = 0; t < nT; t++) g.terms.push_back({tname(t), 'a' + t});
  int hot = c.upto(nT - 1); // the letter most tails and heads share
  auto term = [&]() { return tname(c.chance(55) ? hot : c.upto(nT - 1)); };
  auto add = [&](const std::string &l, std::vector<std::string> r) { RawRule ru; ru.lhs = l; ru.rhs = r; g.rules.push_back(ru); };
  bool prefix = c.chance(50);
  int k = c.range(2, 3);
  // S item, A body, B head, U head start, P prefix, tails from 'F'
  if (prefix) add("S", {"P", "A"}); else add("S", {"A"});
  { std::vector<std::string> r{"B"}; for (int i = 0; i < k; i++) r.push_back(nname(5 + i)); add("A", r); }
  if (c.chance(70)) add("B", {"U", term()}); else add("B", {"U"});
  if (c.chance(20)) add("B", {"U"});
  int nu = c.range(2, 4);
  for (int i = 0; i < nu; i++) { if (c.chance(40)) add("U", {term(), term()}); else add("U", {tname(c.upto(nT - 1))}); }
  if (prefix) { add("P", {tname(c.upto(nT - 1))}); add("P", {}); }
  for (int i = 0; i < k; i++) {
    if (c.chance(80)) add(nname(5 + i), {term()});
    add(nname(5 + i), {});
  }
  assignTranslations(c, g, o, c.chance(15));
  return g;
}

// Block template for error recovery: nested brackets of 1-3 kinds around atoms or separated lists, with error rules of
// several shapes inside the brackets and in the lists (several sets with `. error' on the way back from an error, error
// rules that match a few tokens and then reach `. error' again).
inline RawGram genBlockGrammar(Choices &c, const GramOpts &o) {
  RawGram g;
  int k = c.range(1, 3);
  bool list = c.chance(60);
  // terminals: a atom, b separator, then bracket pairs
  int nT = 2 + 2 * k;
  for (int t = 0; t < nT; t++) g.terms.push_back({tname(t), 'a' + t});
  const std::string E = nname(0), L = nname(1), atom = tname(0), sep = tname(1);
  auto open = [&](int i) { return tname(2 + 2 * i); };
  auto close = [&](int i) { return tname(3 + 2 * i); };
  auto add = [&](const std::string &lhs, std::vector<std::string> rhs) { RawRule r; r.lhs = lhs; r.rhs = rhs; g.rules.push_back(r); };
  add(E, {atom});
  if (c.chance(30)) add(E, {atom, atom});
  for (int i = 0; i < k; i++) {
    bool useList = list && c.chance(70);
    add(E, {open(i), useList ? L : E, close(i)});
    int nerr = c.upto(2);
    for (int j = 0; j < nerr; j++)
      switch (c.upto(5)) {
      case 0: add(E, {open(i), "error", close(i)}); break;
      case 1: add(E, {open(i), "error", sep, "error", close(i)}); break;
      case 2: add(E, {open(i), "error", sep, close(i)}); break;
      case 3: add(E, {open(i), E, sep, "error", close(i)}); break;
      case 4: add(E, {open(i), "error"}); break;
      case 5: add(E, {"error", close(i)}); break;
      }
  }
  if (list) {
    add(L, {E});
    add(L, {L, sep, E});
    if (c.chance(50)) add(L, {"error"});
    if (c.chance(50)) add(L, {L, sep, "error"});
    if (c.chance(25)) add(L, {"error", sep, E});
    bool used = false;
    for (auto &r : g.rules) if (r.lhs == E) for (auto &x : r.rhs) if (x == L) used = true;
    if (!used) add(E, {open(0), L, close(0)});
  }
  if (c.chance(25)) add(E, {"error"});
  bool hasErr = false;
  for (auto &r : g.rules) for (auto &x : r.rhs) if (x == "error") hasErr = true;
  if (!hasErr) add(E, {open(0), "error", close(0)});
  assignTranslations(c, g, o, false);
  return g;
}

// Chain template: nonterminals X1..Xk (k = 3-6), each rule of Xj ending in X(j+1) (optionally followed by a nullable
// symbol) or being a unit rule, plus a short alternative; the start symbol uses several Xj in contexts with different
// following terminals.  Rules are listed top-down, bottom-up or (by the caller's shuffle) in any order: information
// computed by fix-point loops over the rules (FIRST/FOLLOW, nullable, contexts) has to travel along the whole chain,
// with or against the numbering of the nonterminals.
inline RawGram genChainGrammar(Choices &c, const GramOpts &o) {
  RawGram g;
  int nT = c.range(3, 6);
  for (int t = 0; t < nT; t++) g.terms.push_back({tname(t), 'a' + t});
  auto term = [&]() { return tname(c.upto(nT - 1)); };
  int k = c.range(3, 6);
  const std::string S = nname(0);
  auto X = [&](int j) { return nname(j); }; // X(1)..X(k)
  bool nullTail = c.chance(50), useErr = c.chance(o.errorPct);
  const std::string N = nname(k + 1), E = nname(k + 2);
  std::vector<RawRule> srules, xrules;
  auto mk = [&](const std::string &lhs, std::vector<std::string> rhs) { RawRule r; r.lhs = lhs; r.rhs = rhs; return r; };
  for (int j = 1; j <= k; j++) {
    if (j < k) {
      int shape = c.upto(3);
      std::vector<std::string> rhs;
      if (shape != 0) rhs.push_back(term());       // shape 0: unit rule
      if (shape == 3) rhs.push_back(term());
      rhs.push_back(X(j + 1));
      if (nullTail && c.chance(40)) rhs.push_back(N);
      xrules.push_back(mk(X(j), rhs));
      if (c.chance(70)) xrules.push_back(mk(X(j), {term()}));
    } else {
      xrules.push_back(mk(X(j), {term()}));
      if (c.chance(25)) xrules.push_back(mk(X(j), {}));
    }
  }
  if (nullTail) { xrules.push_back(mk(N, {})); if (c.flip()) xrules.push_back(mk(N, {term()})); }
  // contexts in the start symbol
  int ns = c.range(2, 4);
  for (int i = 0; i < ns; i++) {
    int j = i == 0 ? 1 : c.range(1, k);
    std::vector<std::string> rhs;
    if (c.chance(80)) rhs.push_back(term());
    rhs.push_back(X(j));
    if (c.chance(70)) rhs.push_back(term());
    if (useErr && i == 0) rhs.push_back(E);
    srules.push_back(mk(S, rhs));
  }
  if (useErr) { xrules.push_back(mk(E, {"error"})); xrules.push_back(mk(E, {term()})); if (c.flip()) xrules.push_back(mk(E, {})); }
  // order: the first rule belongs to the start symbol; then top-down or bottom-up
  g.rules.push_back(srules[0]);
  bool bottomUp = c.flip();
  if (bottomUp) std::reverse(xrules.begin(), xrules.end());
  bool sFirst = c.flip();
  if (sFirst) for (size_t i = 1; i < srules.size(); i++) g.rules.push_back(srules[i]);
  for (auto &r : xrules) g.rules.push_back(r);
  if (!sFirst) for (size_t i = 1; i < srules.size(); i++) g.rules.push_back(srules[i]);
  bool nUsed = false;
  for (auto &r : g.rules) for (auto &x : r.rhs) if (x == N) nUsed = true;
  if (nullTail && !nUsed) g.rules[0].rhs.push_back(N);
  assignTranslations(c, g, o, false);
  return g;
}

// List wrapper: a new start symbol Z deriving a list of phrases of the old start symbol S (optionally separated by a
// terminal), so that sentences repeat phrases at different places of the parse list.  Returns the shape:
// 0 none, 1 Z : S | Z [sep] S, 2 Z : S | S [sep] Z, 3 Z : | Z [sep] S
struct WrapInfo { int shape = 0; std::string sep; std::string inner; };
inline WrapInfo wrapList(Choices &c, RawGram &g, const GramOpts &o) {
  WrapInfo wi;
  if (g.rules.empty() || g.terms.empty()) return wi;
  wi.inner = g.rules[0].lhs;
  wi.shape = c.range(1, 3);
  if (c.chance(55)) wi.sep = g.terms[c.upto((int)g.terms.size() - 1)].first;
  const std::string Z = "Z";
  std::vector<RawRule> rs(2);
  rs[0].lhs = rs[1].lhs = Z;
  auto rec = [&](RawRule &r, bool left) {
    if (left) r.rhs.push_back(Z); else r.rhs.push_back(wi.inner);
    if (!wi.sep.empty()) r.rhs.push_back(wi.sep);
    if (left) r.rhs.push_back(wi.inner); else r.rhs.push_back(Z);
  };
  if (wi.shape == 1) { rec(rs[0], true); rs[1].rhs = {wi.inner}; }
  else if (wi.shape == 2) { rs[0].rhs = {wi.inner}; rec(rs[1], false); }
  else { rec(rs[1], true); }
  for (int k = 0; k < 2; k++) {
    RawRule &r = rs[k];
    r.cost = c.upto(3);
    int len = r.rhs.size();
    int m = o.fullYield ? 0 : c.upto(3);
    if (m <= 1) { r.has_anode = true; r.anode = "w" + std::to_string(k); for (int i = 0; i < len; i++) if (m == 0 || r.rhs[i] != wi.sep) r.transl.push_back(i); }
    else if (m == 2 && len > 0) r.transl.push_back(c.upto(len - 1));
    else r.transl_null = true;
  }
  g.rules.insert(g.rules.begin(), rs.begin(), rs.end());
  return wi;
}

// minimal yield length of every symbol (INT_MAX/2 if unproductive)
inline std::vector<int> minLen(const Gram &g) {
  int S = g.nT + g.nN;
  const int INF = INT_MAX / 2;
  std::vector<int> m(S, INF);
  for (int t = 0; t < g.nT; t++) m[t] = (t == g.errT ? INF : 1);
  bool ch = true;
  while (ch) {
    ch = false;
    for (auto &r : g.rules) {
      long s = 0;
      for (int x : r.rhs) s += m[x];
      if (s < m[r.lhs]) { m[r.lhs] = (int)s; ch = true; }
    }
  }
  return m;
}

// random derivation from `sym'; appends terminal indexes to out. false if no finite yield.
inline bool genSentence(Choices &c, const Gram &g, const std::vector<int> &ml, int sym, int budget, int depth, std::vector<int> &out) {
  const int INF = INT_MAX / 2;
  if (g.isT(sym)) { if (sym == g.errT) return false; out.push_back(sym); return true; }
  if (ml[sym] >= INF) return false;
  std::vector<int> cand, best;
  long bl = INF;
  for (size_t r = 0; r < g.rules.size(); r++)
    if (g.rules[r].lhs == sym) {
      long s = 0;
      for (int x : g.rules[r].rhs) s += ml[x];
      if (s >= INF) continue;
      cand.push_back(r);
      if (s < bl) { bl = s; best.clear(); }
      if (s == bl) best.push_back(r);
    }
  if (cand.empty()) return false;
  bool tight = depth > 8 || (int)out.size() > budget;
  const std::vector<int> &pool = tight ? best : cand;
  const Rule &ru = g.rules[pool[c.upto((int)pool.size() - 1)]];
  for (int x : ru.rhs) if (!genSentence(c, g, ml, x, budget, depth + 1, out)) return false;
  return true;
}

// One input for grammar g: kind 0 sentence, 1 mutated sentence, 2 random string.
// (phraseSym >= 0: the start symbol derives lists of phraseSym separated by sepTerm (-1: nothing); the sentence is built
// from 2..5 phrases, some of them repeated)
inline std::vector<int> genInputIdx(Choices &c, const Gram &g, const std::vector<int> &ml, int maxLen, int kind, int phraseSym = -1, int sepTerm = -1) {
  std::vector<int> w;
  int nDecl = g.nT - 1; // without `error'
  if (nDecl <= 0) return w; // no declared terminal: only the empty input exists
  auto rndTerm = [&]() { int t = c.upto(nDecl - 1); return t >= g.errT ? t + 1 : t; };
  if (kind <= 1 && phraseSym >= 0) {
    int n = c.range(2, 5);
    std::vector<std::vector<int>> ph;
    for (int j = 0; j < n; j++) {
      std::vector<int> p;
      if (j > 0 && c.chance(35)) p = ph[c.upto(j - 1)];
      else if (!genSentence(c, g, ml, phraseSym, std::max(2, maxLen / 3), 2, p)) { ph.clear(); break; }
      ph.push_back(p);
    }
    if (ph.empty()) kind = 2;
    for (size_t j = 0; j < ph.size(); j++) { if (j && sepTerm >= 0) w.push_back(sepTerm); w.insert(w.end(), ph[j].begin(), ph[j].end()); }
    if ((int)w.size() > 2 * maxLen + 6) w.resize(2 * maxLen + 6);
  } else if (kind <= 1) {
    if (!genSentence(c, g, ml, g.start, maxLen, 0, w)) { w.clear(); kind = 2; }
    if ((int)w.size() > maxLen + 6) w.resize(maxLen + 6);
  }
  if (kind == 1) {
    int m = c.range(1, 3);
    for (int j = 0; j < m; j++) {
      int op = c.upto(4);
      if (w.empty()) op = 0;
      int pos = c.upto((int)w.size() - (op == 0 ? 0 : 1));
      switch (op) {
      case 0: w.insert(w.begin() + pos, rndTerm()); break;
      case 1: w.erase(w.begin() + pos); break;
      case 2: w[pos] = rndTerm(); break;
      case 3: w.resize(pos); break;                                  // truncate
      case 4: { std::vector<int> frag(w.begin() + pos, w.begin() + std::min((int)w.size(), pos + 3)); w.insert(w.begin() + pos, frag.begin(), frag.end()); break; } // duplicate a fragment
      }
    }
  } else if (kind == 2) {
    int len = c.upto(maxLen);
    for (int i = 0; i < len; i++) w.push_back(rndTerm());
  }
  return w;
}
inline std::vector<int> toCodes(const Gram &g, const std::vector<int> &w) {
  std::vector<int> v;
  for (int t : w) v.push_back(g.tcode[t]);
  return v;
}
inline bool toIdx(const Gram &g, const std::vector<int> &codes, std::vector<int> &w) {
  w.clear();
  for (int c : codes) { int t = g.termByCode(c); if (t < 0) return false; w.push_back(t); }
  return true;
}

// ------------------------------------------------------------------ wide grammars (hundreds of symbols and rules)
// A small random grammar scaled up: shape 0 = N renamed copies of the whole grammar, shape 1 = the grammar once, used
// inside N different pairs of bracket terminals.  The start symbol derives a list of phrases, one per copy/bracket pair.
// A deterministic expansion of one generated seed value drives the long, repetitive parts (choice vectors are short).
struct SubChoices {
  std::vector<uint32_t> v;
  explicit SubChoices(uint32_t seed, size_t n) { uint64_t x = seed * 2654435761u + 12345; for (size_t i = 0; i < n; i++) { x = x * 6364136223846793005ULL + 1442695040888963407ULL; v.push_back((uint32_t)(x >> 33)); } }
};
struct WideInfo { int shape = 0, copies = 0; bool singleP = false; std::string inner; std::vector<std::string> innerOf; };
inline RawGram genWideGrammar(Choices &c, const GramOpts &o0, WideInfo &wi, int maxUnits = 40) {
  GramOpts o = o0; o.maxT = std::min(o.maxT, 3); o.maxN = std::min(o.maxN, 3); o.extraRules = std::min(o.extraRules, 2);
  RawGram base = genGrammar(c, o);
  wi.shape = c.upto(1);
  int N = wi.copies = 20 * c.range(1, maxUnits);
  int codeMode = c.upto(2);
  int nextCode = codeMode == 1 ? 256 : 0;
  auto newCode = [&]() { int k = nextCode++; return codeMode == 2 ? 1000 + k * 9973 : k; };
  RawGram g;
  std::set<std::string> baseT;
  for (auto &t : base.terms) baseT.insert(t.first);
  wi.inner = base.rules[0].lhs;
  std::vector<std::string> phraseNt;
  if (wi.shape == 0) {
    for (int i = 0; i < N; i++) {
      std::string sfx = "_" + std::to_string(i);
      for (auto &t : base.terms) g.terms.push_back({t.first + sfx, newCode()});
      for (auto r : base.rules) { r.lhs += sfx; for (auto &x : r.rhs) if (x != "error") x += sfx; if (r.has_anode) r.anode += sfx; g.rules.push_back(r); }
      phraseNt.push_back(wi.inner + sfx);
    }
    wi.innerOf = phraseNt;
  } else {
    for (auto &t : base.terms) g.terms.push_back({t.first, newCode()});
    g.rules = base.rules;
    wi.singleP = c.flip();
    for (int i = 0; i < N; i++) {
      std::string sfx = std::to_string(i);
      g.terms.push_back({"o" + sfx, newCode()});
      g.terms.push_back({"c" + sfx, newCode()});
      RawRule r; r.lhs = wi.singleP ? "Ph" : "Ph" + sfx; r.rhs = {"o" + sfx, wi.inner, "c" + sfx};
      r.has_anode = true; r.anode = "p" + sfx; r.cost = 1; r.transl = {1};
      g.rules.push_back(r);
      if (!wi.singleP || i == 0) phraseNt.push_back(r.lhs);
    }
  }
  std::vector<RawRule> top;
  { RawRule r; r.lhs = "Top"; r.rhs = {"Lst"}; r.transl = {0}; top.push_back(r); }
  { RawRule r; r.lhs = "Lst"; if (c.flip()) r.rhs = {phraseNt[0]}; r.has_anode = true; r.anode = "l0"; r.cost = 0; top.push_back(r); }
  for (auto &pn : phraseNt) { RawRule r; r.lhs = "Lst"; r.rhs = {"Lst", pn}; r.has_anode = true; r.anode = "l"; r.cost = 0; r.transl = {0, 1}; top.push_back(r); }
  g.rules.insert(g.rules.begin(), top.begin(), top.end());
  return g;
}
// an input of up to maxTok tokens for a wide grammar: phrases of the copies start, start+stride, ... (mod N)
inline std::vector<int> genWideInput(Choices &c, const Gram &g, const std::vector<int> &ml, const WideInfo &wi, int maxTok) {
  std::vector<int> w;
  int N = wi.copies;
  int start = c.upto(N - 1), stride = c.flip() ? 1 : c.range(1, 7);
  int n = N * c.range(1, 2);
  SubChoices sc(c.raw(), 6 * (size_t)n + 16);
  Choices sub(sc.v);
  int inner = wi.shape == 1 ? g.symByName(wi.inner) : -1;
  for (int j = 0; j < n && (int)w.size() < maxTok; j++) {
    int i = (int)(((long)start + (long)j * stride) % N);
    std::vector<int> p;
    if (wi.shape == 0) { int a = g.symByName(wi.innerOf[i]); if (a < 0 || !genSentence(sub, g, ml, a, 4, 4, p)) continue; }
    else {
      int op = g.symByName("o" + std::to_string(i)), cl = g.symByName("c" + std::to_string(i));
      p.push_back(op);
      if (inner < 0 || !genSentence(sub, g, ml, inner, 4, 4, p)) continue;
      p.push_back(cl);
    }
    w.insert(w.end(), p.begin(), p.end());
  }
  return w;
}

// one symbol gets a name of several hundred characters (the first object put on a name stack is larger than its segment)
inline void elongate(Choices &c, GramDef &gd) {
  if (gd.raw.rules.empty()) return;
  std::string from = (c.flip() || gd.raw.terms.empty()) ? gd.raw.rules[0].lhs : gd.raw.terms[0].first;
  if (from.empty() || !(isalpha((unsigned char)from[0]) || from[0] == '_')) return; // character constants keep their spelling
  std::string to = from + std::string(300 + c.upto(1400), 'q'); // every length: segment arithmetic depends on it
  for (auto &t : gd.raw.terms) if (t.first == from) t.first = to;
  for (auto &r : gd.raw.rules) { if (r.lhs == from) r.lhs = to; for (auto &x : r.rhs) if (x == from) x = to; }
  if (gd.use_text) {
    std::string out; const std::string &t = gd.text;
    auto idch = [](char ch) { return isalnum((unsigned char)ch) || ch == '_'; };
    for (size_t i = 0; i < t.size();) {
      if (t[i] == '\'') { size_t j = std::min(t.size(), i + 3); out += t.substr(i, j - i); i = j; continue; }
      if (idch(t[i])) { size_t j = i; while (j < t.size() && idch(t[j])) j++; std::string w = t.substr(i, j - i); out += (w == from ? to : w); i = j; continue; }
      out += t[i++];
    }
    gd.text = out;
  }
}

// The grammar as a description text in the documented syntax (plain layout): TERM declarations with explicit codes, rules of
// one nonterminal that follow each other as alternatives, the cost written only when it is not the default 1.
// false if the grammar cannot be written that way (names that are no identifiers, translations the syntax cannot express).
inline bool simpleText(const RawGram &g, std::string &out) {
  auto ident = [](const std::string &n) {
    if (n.empty() || !(isalpha((unsigned char)n[0]) || n[0] == '_')) return false;
    for (char ch : n) if (!(isalnum((unsigned char)ch) || ch == '_')) return false;
    return n != "TERM";
  };
  out = "TERM";
  for (auto &t : g.terms) { if (!ident(t.first) || t.second < 0) return false; out += "\n " + t.first + " = " + std::to_string(t.second); }
  out += ";\n";
  for (size_t i = 0; i < g.rules.size(); i++) {
    const RawRule &r = g.rules[i];
    if (!ident(r.lhs)) return false;
    bool cont = i > 0 && g.rules[i - 1].lhs == r.lhs;
    out += cont ? " |" : r.lhs + " :";
    for (auto &x : r.rhs) { if (!ident(x)) return false; out += " " + x; }
    if (r.has_anode) {
      if (!ident(r.anode) || r.cost < 0) return false;
      out += " # " + r.anode;
      if (r.cost != 1) out += " " + std::to_string(r.cost);
      out += " (";
      for (int t : r.transl) out += t == NILNUM ? std::string(" -") : " " + std::to_string(t);
      out += " )";
    } else if (r.transl_null || r.transl.empty()) { if (!r.transl_null) out += " #"; }
    else if (r.transl.size() == 1) out += r.transl[0] == NILNUM ? std::string(" # -") : " # " + std::to_string(r.transl[0]);
    else return false;
    bool last = i + 1 == g.rules.size() || g.rules[i + 1].lhs != r.lhs;
    out += last ? " ;\n" : "\n";
  }
  return true;
}

// grammar feature labels (measured distribution of the generator)
struct Feat { bool nullable = false, unit = false, leftrec = false, hiddenleft = false, rightrec = false, err = false, dupRhs = false; };
inline Feat features(const Gram &g, const Info &in) {
  Feat f;
  int S = g.nT + g.nN;
  for (int a = g.nT; a < S; a++) if (in.nullable[a]) f.nullable = true;
  // left-corner relation: A L B if A : x B y with x nullable (hidden if x non-empty)
  std::vector<std::set<int>> L(S), R(S);
  std::vector<std::set<int>> Lh(S);
  for (auto &r : g.rules) {
    if (r.rhs.size() == 1 && !g.isT(r.rhs[0])) f.unit = true;
    for (size_t i = 0; i < r.rhs.size(); i++) {
      if (r.rhs[i] == g.errT) f.err = true;
      if (!g.isT(r.rhs[i])) { L[r.lhs].insert(r.rhs[i]); if (i > 0) Lh[r.lhs].insert(r.rhs[i]); }
      if (g.isT(r.rhs[i]) || !in.nullable[r.rhs[i]]) break;
    }
    for (int i = (int)r.rhs.size() - 1; i >= 0; i--) {
      if (!g.isT(r.rhs[i])) R[r.lhs].insert(r.rhs[i]);
      if (g.isT(r.rhs[i]) || !in.nullable[r.rhs[i]]) break;
    }
    for (auto &q : g.rules) if (&q != &r && q.lhs == r.lhs && q.rhs == r.rhs) f.dupRhs = true;
  }
  auto reach = [&](std::vector<std::set<int>> &E, int a) {
    std::set<int> seen;
    std::vector<int> st(E[a].begin(), E[a].end());
    while (!st.empty()) { int b = st.back(); st.pop_back(); if (!seen.insert(b).second) continue; for (int x : E[b]) st.push_back(x); }
    return seen;
  };
  for (int a = g.nT; a < S; a++) {
    if (reach(L, a).count(a)) { f.leftrec = true; for (int b : Lh[a]) if (b == a || reach(L, b).count(a)) f.hiddenleft = true; }
    if (reach(R, a).count(a)) f.rightrec = true;
  }
  return f;
}

} // namespace vf
