// Generators: decode a choice sequence into cases.  Constructive (no
// rejection inside): every vector decodes to something the API accepts as
// input; whether yaep must accept the *grammar* is decided by the reference
// classifier afterwards.
#pragma once
#include "case.hpp"

namespace vf {

struct GramOpts {
  int maxT = 3, maxN = 4, extraRules = 4, maxRhs = 3;
  int errorPct = 0;        // chance that a grammar uses the reserved terminal `error'
  bool fullYield = false;  // every rhs symbol translated in order under an abstract node
  bool plainCodes = false; // character codes only
  int ambiguityBias = 0;   // 0..100: duplicate rules / E : E E shapes
  bool deterministicNames = true;
};

inline std::string tname(int i) { return std::string(1, (char)('a' + i)); }
inline std::string nname(int i) { return std::string(1, (char)('A' + i)); }

inline RawGram genGrammar(Choices &c, const GramOpts &o) {
  RawGram g;
  int nT = c.range(1, o.maxT), nN = c.range(1, o.maxN);
  int codeMode = o.plainCodes ? 0 : c.upto(4);
  for (int t = 0; t < nT; t++) {
    int code;
    switch (codeMode) {
    default: code = 'a' + t; break;
    case 2: code = t; break;                 // dense from 0
    case 3: code = 5 + t * 20011; break;     // sparse: no translation vector
    case 4: code = 256 + 3 * t; break;       // gaps between declared codes
    }
    g.terms.push_back({tname(t), code});
  }
  bool useErr = c.chance(o.errorPct);
  int nR = nN + c.upto(o.extraRules);
  bool shareNames = c.chance(15);
  // pass 1: left- and right-hand sides
  for (int r = 0; r < nR; r++) {
    RawRule ru;
    int lhs = r < nN ? r : c.upto(nN - 1);
    ru.lhs = nname(lhs);
    int len = c.upto(o.maxRhs);
    if (c.chance(6)) len = o.maxRhs + 1;
    bool firstOfNt = r < nN;
    for (int k = 0; k < len; k++) {
      int kind = c.upto(9);
      if (useErr && c.chance(12)) ru.rhs.push_back("error");
      else if (kind < 4 || (firstOfNt && lhs == nN - 1)) ru.rhs.push_back(tname(c.upto(nT - 1)));
      else if (firstOfNt) ru.rhs.push_back(nname(c.range(std::min(lhs + 1, nN - 1), nN - 1))); // keeps most nonterminals productive
      else ru.rhs.push_back(nname(c.upto(nN - 1)));
    }
    if (o.ambiguityBias && c.chance(o.ambiguityBias) && !g.rules.empty()) {
      // copy the shape of an earlier rule (same rhs => ambiguity) or make E : E E
      if (c.flip()) { const RawRule &p = g.rules[c.upto((int)g.rules.size() - 1)]; ru.lhs = p.lhs; ru.rhs = p.rhs; }
      else { ru.rhs = {ru.lhs, ru.lhs}; if (c.flip()) ru.rhs.insert(ru.rhs.begin() + 1, tname(c.upto(nT - 1))); }
    }
    g.rules.push_back(ru);
  }
  if (useErr) { // at least one rule really uses `error'
    bool has = false;
    for (auto &r : g.rules) for (auto &x : r.rhs) if (x == "error") has = true;
    if (!has) { RawRule &host = g.rules[c.upto((int)g.rules.size() - 1)]; host.rhs.insert(host.rhs.begin() + c.upto((int)host.rhs.size()), "error"); }
  }
  // pass 2: usually make every nonterminal reachable from the start symbol
  if (c.chance(80)) {
    for (int round = 0; round < nN; round++) {
      std::set<std::string> reach{g.rules[0].lhs};
      bool ch = true;
      while (ch) { ch = false; for (auto &r : g.rules) if (reach.count(r.lhs)) for (auto &s : r.rhs) if (s.size() == 1 && s[0] >= 'A' && s[0] <= 'Z' && reach.insert(s).second) ch = true; }
      std::string miss;
      for (int n = 0; n < nN; n++) if (!reach.count(nname(n))) { miss = nname(n); break; }
      if (miss.empty()) break;
      std::vector<int> cand;
      for (size_t r = 0; r < g.rules.size(); r++) if (reach.count(g.rules[r].lhs)) cand.push_back(r);
      RawRule &host = g.rules[cand[c.upto((int)cand.size() - 1)]];
      host.rhs.insert(host.rhs.begin() + c.upto((int)host.rhs.size()), miss);
    }
  }
  // pass 2b: usually give every nonterminal a terminating rule
  if (c.chance(85)) {
    std::set<std::string> prod;
    bool ch = true;
    auto isNt = [](const std::string &s) { return s.size() == 1 && s[0] >= 'A' && s[0] <= 'Z'; };
    while (ch) {
      ch = false;
      for (auto &r : g.rules) {
        if (prod.count(r.lhs)) continue;
        bool ok = true;
        for (auto &s : r.rhs) if (isNt(s) && !prod.count(s)) ok = false;
        if (ok) { prod.insert(r.lhs); ch = true; }
      }
    }
    for (int n = 0; n < nN; n++)
      if (!prod.count(nname(n))) {
        RawRule ru;
        ru.lhs = nname(n);
        if (c.chance(75)) ru.rhs.push_back(tname(c.upto(nT - 1)));
        g.rules.push_back(ru);
      }
  }
  nR = g.rules.size();
  // pass 3: translations
  for (int r = 0; r < nR; r++) {
    RawRule &ru = g.rules[r];
    int len = ru.rhs.size();
    ru.anode = shareNames && c.flip() ? "x" : "n" + std::to_string(r);
    ru.cost = c.upto(3);
    if (o.fullYield) {
      ru.has_anode = true;
      for (int k = 0; k < len; k++) ru.transl.push_back(k);
    } else {
      int m = c.upto(6);
      if (m <= 3) { // abstract node: permutation of a subset, nil padded
        ru.has_anode = true;
        std::vector<int> idx;
        for (int k = 0; k < len; k++) idx.push_back(k);
        for (int k = len - 1; k > 0; k--) std::swap(idx[k], idx[c.upto(k)]);
        if (m == 0) std::sort(idx.begin(), idx.end());
        int take = m == 0 ? len : c.upto(len);
        for (int k = 0; k < take; k++) {
          if (c.chance(12)) ru.transl.push_back(NILNUM);
          ru.transl.push_back(idx[k]);
        }
        if (c.chance(12)) ru.transl.push_back(NILNUM);
      } else if (m == 4 && len > 0) ru.transl.push_back(c.upto(len - 1)); // pass-through
      else if (m == 5) ru.transl.push_back(NILNUM);                         // `# -'
      else if (c.chance(30)) ru.transl_null = true;                         // no translation at all
    }
  }
  return g;
}

// minimal yield length of every symbol (INT_MAX/2 if unproductive)
inline std::vector<int> minLen(const Gram &g) {
  int S = g.nT + g.nN;
  const int INF = INT_MAX / 2;
  std::vector<int> m(S, INF);
  for (int t = 0; t < g.nT; t++) m[t] = (t == g.errT ? INF : 1);
  bool ch = true;
  while (ch) {
    ch = false;
    for (auto &r : g.rules) {
      long s = 0;
      for (int x : r.rhs) s += m[x];
      if (s < m[r.lhs]) { m[r.lhs] = (int)s; ch = true; }
    }
  }
  return m;
}

// random derivation from `sym'; appends terminal indexes to out. false if no finite yield.
inline bool genSentence(Choices &c, const Gram &g, const std::vector<int> &ml, int sym, int budget, int depth, std::vector<int> &out) {
  const int INF = INT_MAX / 2;
  if (g.isT(sym)) { if (sym == g.errT) return false; out.push_back(sym); return true; }
  if (ml[sym] >= INF) return false;
  std::vector<int> cand, best;
  long bl = INF;
  for (size_t r = 0; r < g.rules.size(); r++)
    if (g.rules[r].lhs == sym) {
      long s = 0;
      for (int x : g.rules[r].rhs) s += ml[x];
      if (s >= INF) continue;
      cand.push_back(r);
      if (s < bl) { bl = s; best.clear(); }
      if (s == bl) best.push_back(r);
    }
  if (cand.empty()) return false;
  bool tight = depth > 8 || (int)out.size() > budget;
  const std::vector<int> &pool = tight ? best : cand;
  const Rule &ru = g.rules[pool[c.upto((int)pool.size() - 1)]];
  for (int x : ru.rhs) if (!genSentence(c, g, ml, x, budget, depth + 1, out)) return false;
  return true;
}

// One input for grammar g: kind 0 sentence, 1 mutated sentence, 2 random string.
inline std::vector<int> genInputIdx(Choices &c, const Gram &g, const std::vector<int> &ml, int maxLen, int kind) {
  std::vector<int> w;
  int nDecl = g.nT - 1; // without `error'
  if (nDecl <= 0) return w; // no declared terminal: only the empty input exists
  auto rndTerm = [&]() { int t = c.upto(nDecl - 1); return t >= g.errT ? t + 1 : t; };
  if (kind <= 1) {
    if (!genSentence(c, g, ml, g.start, maxLen, 0, w)) { w.clear(); kind = 2; }
    if ((int)w.size() > maxLen + 6) w.resize(maxLen + 6);
  }
  if (kind == 1) {
    int m = c.range(1, 3);
    for (int j = 0; j < m; j++) {
      int op = c.upto(4);
      if (w.empty()) op = 0;
      int pos = c.upto((int)w.size() - (op == 0 ? 0 : 1));
      switch (op) {
      case 0: w.insert(w.begin() + pos, rndTerm()); break;
      case 1: w.erase(w.begin() + pos); break;
      case 2: w[pos] = rndTerm(); break;
      case 3: w.resize(pos); break;                                  // truncate
      case 4: { std::vector<int> frag(w.begin() + pos, w.begin() + std::min((int)w.size(), pos + 3)); w.insert(w.begin() + pos, frag.begin(), frag.end()); break; } // duplicate a fragment
      }
    }
  } else if (kind == 2) {
    int len = c.upto(maxLen);
    for (int i = 0; i < len; i++) w.push_back(rndTerm());
  }
  return w;
}
inline std::vector<int> toCodes(const Gram &g, const std::vector<int> &w) {
  std::vector<int> v;
  for (int t : w) v.push_back(g.tcode[t]);
  return v;
}
inline bool toIdx(const Gram &g, const std::vector<int> &codes, std::vector<int> &w) {
  w.clear();
  for (int c : codes) { int t = g.termByCode(c); if (t < 0) return false; w.push_back(t); }
  return true;
}

// grammar feature labels (measured distribution of the generator)
struct Feat { bool nullable = false, unit = false, leftrec = false, hiddenleft = false, rightrec = false, err = false, dupRhs = false; };
inline Feat features(const Gram &g, const Info &in) {
  Feat f;
  int S = g.nT + g.nN;
  for (int a = g.nT; a < S; a++) if (in.nullable[a]) f.nullable = true;
  // left-corner relation: A L B if A : x B y with x nullable (hidden if x non-empty)
  std::vector<std::set<int>> L(S), R(S);
  std::vector<std::set<int>> Lh(S);
  for (auto &r : g.rules) {
    if (r.rhs.size() == 1 && !g.isT(r.rhs[0])) f.unit = true;
    for (size_t i = 0; i < r.rhs.size(); i++) {
      if (r.rhs[i] == g.errT) f.err = true;
      if (!g.isT(r.rhs[i])) { L[r.lhs].insert(r.rhs[i]); if (i > 0) Lh[r.lhs].insert(r.rhs[i]); }
      if (g.isT(r.rhs[i]) || !in.nullable[r.rhs[i]]) break;
    }
    for (int i = (int)r.rhs.size() - 1; i >= 0; i--) {
      if (!g.isT(r.rhs[i])) R[r.lhs].insert(r.rhs[i]);
      if (g.isT(r.rhs[i]) || !in.nullable[r.rhs[i]]) break;
    }
    for (auto &q : g.rules) if (&q != &r && q.lhs == r.lhs && q.rhs == r.rhs) f.dupRhs = true;
  }
  auto reach = [&](std::vector<std::set<int>> &E, int a) {
    std::set<int> seen;
    std::vector<int> st(E[a].begin(), E[a].end());
    while (!st.empty()) { int b = st.back(); st.pop_back(); if (!seen.insert(b).second) continue; for (int x : E[b]) st.push_back(x); }
    return seen;
  };
  for (int a = g.nT; a < S; a++) {
    if (reach(L, a).count(a)) { f.leftrec = true; for (int b : Lh[a]) if (b == a || reach(L, b).count(a)) f.hiddenleft = true; }
    if (reach(R, a).count(a)) f.rightrec = true;
  }
  return f;
}

} // namespace vf
