/* C shim for the C implementations of hash table, object stack and variable length object (the headers switch on
   __cplusplus, so the C variants can only be used from a C translation unit).  */
#include <stdlib.h>
#include <string.h>
#include <assert.h>
#include "allocate.h"
#include "hashtab.h"
#include "objstack.h"
#include "vlobject.h"

static YaepAllocator *cs_alloc (void)
{
  static YaepAllocator *a;
  if (a == NULL) a = yaep_alloc_new (NULL, NULL, NULL, NULL);
  return a;
}
void cs_init (void) { (void) cs_alloc (); }
/* ---- hash table over boxed longs */
static unsigned h_ident (hash_table_entry_t e) { return (unsigned) *(const long *) e; }
static unsigned h_mod7 (hash_table_entry_t e) { return (unsigned) (*(const long *) e % 7); }
static unsigned h_const (hash_table_entry_t e) { (void) e; return 42; }
static unsigned h_mult (hash_table_entry_t e) { return (unsigned) (*(const long *) e * 2654435761u); }
static int h_eq (hash_table_entry_t a, hash_table_entry_t b) { return *(const long *) a == *(const long *) b; }
void *cs_ht_create (size_t size, int kind)
{
  return create_hash_table (cs_alloc (), size, kind == 0 ? h_ident : kind == 1 ? h_mod7 : kind == 2 ? h_const : h_mult, h_eq);
}
void cs_ht_delete (void *h) { delete_hash_table ((hash_table_t) h); }
void cs_ht_empty (void *h) { empty_hash_table ((hash_table_t) h); }
int cs_ht_find (void *h, const long *key) { hash_table_entry_t *e = find_hash_table_entry ((hash_table_t) h, key, 0); return *e != NULL && *e == (hash_table_entry_t) key; }
/* returns 1 if inserted, 0 if an equal element was there, -1 if the reserved entry is not empty (contract violation) */
int cs_ht_insert (void *h, const long *key)
{
  hash_table_entry_t *e = find_hash_table_entry ((hash_table_t) h, key, 1);
  if (*e != NULL) return (*e != (hash_table_entry_t) 1 && h_eq (*e, key)) ? 0 : -1;
  *e = key;
  return 1;
}
void cs_ht_remove (void *h, const long *key) { remove_element_from_hash_table_entry ((hash_table_t) h, key); }
size_t cs_ht_count (void *h) { return hash_table_elements_number ((hash_table_t) h); }
size_t cs_ht_size (void *h) { return hash_table_size ((hash_table_t) h); }
/* ---- object stack */
void *cs_os_create (size_t init) { os_t *o = malloc (sizeof (os_t)); OS_CREATE (*o, cs_alloc (), init); return o; }
void cs_os_delete (void *o) { OS_DELETE (*(os_t *) o); free (o); }
void cs_os_empty (void *o) { OS_EMPTY (*(os_t *) o); }
void cs_os_add_byte (void *o, int b) { OS_TOP_ADD_BYTE (*(os_t *) o, b); }
void cs_os_add_memory (void *o, const void *p, size_t n) { OS_TOP_ADD_MEMORY (*(os_t *) o, p, n); }
void cs_os_add_string (void *o, const char *s) { OS_TOP_ADD_STRING (*(os_t *) o, s); }
void cs_os_expand (void *o, size_t n) { OS_TOP_EXPAND (*(os_t *) o, n); }
void cs_os_shorten (void *o, size_t n) { OS_TOP_SHORTEN (*(os_t *) o, n); }
void cs_os_nullify (void *o) { OS_TOP_NULLIFY (*(os_t *) o); }
void cs_os_finish (void *o) { OS_TOP_FINISH (*(os_t *) o); }
size_t cs_os_top_length (void *o) { return OS_TOP_LENGTH (*(os_t *) o); }
void *cs_os_top_begin (void *o) { return OS_TOP_BEGIN (*(os_t *) o); }
/* ---- variable length object */
void *cs_vlo_create (size_t init) { vlo_t *v = malloc (sizeof (vlo_t)); VLO_CREATE (*v, cs_alloc (), init); return v; }
void cs_vlo_delete (void *v) { VLO_DELETE (*(vlo_t *) v); free (v); }
void cs_vlo_add_byte (void *v, int b) { VLO_ADD_BYTE (*(vlo_t *) v, b); }
void cs_vlo_add_memory (void *v, const void *p, size_t n) { VLO_ADD_MEMORY (*(vlo_t *) v, p, n); }
void cs_vlo_add_string (void *v, const char *s) { VLO_ADD_STRING (*(vlo_t *) v, s); }
void cs_vlo_expand (void *v, size_t n) { VLO_EXPAND (*(vlo_t *) v, n); }
void cs_vlo_shorten (void *v, size_t n) { VLO_SHORTEN (*(vlo_t *) v, n); }
void cs_vlo_nullify (void *v) { VLO_NULLIFY (*(vlo_t *) v); }
void cs_vlo_tailor (void *v) { VLO_TAILOR (*(vlo_t *) v); }
size_t cs_vlo_length (void *v) { return VLO_LENGTH (*(vlo_t *) v); }
void *cs_vlo_begin (void *v) { return VLO_BEGIN (*(vlo_t *) v); }
