// Declarations of the yaep C API for use from C++ (yaep.h declares the C
// functions only for C translation units) + the hook interface.
#pragma once
#include "yaep.h" // structs + class yaep (C++ binding)

extern "C" {
struct grammar *yaep_create_grammar(void);
int yaep_error_code(struct grammar *g);
const char *yaep_error_message(struct grammar *g);
int yaep_read_grammar(struct grammar *g, int strict_p, const char *(*read_terminal)(int *code),
                      const char *(*read_rule)(const char ***rhs, const char **abs_node, int *anode_cost, int **transl));
int yaep_parse_grammar(struct grammar *g, int strict_p, const char *description);
int yaep_set_lookahead_level(struct grammar *grammar, int level);
int yaep_set_debug_level(struct grammar *grammar, int level);
int yaep_set_one_parse_flag(struct grammar *grammar, int flag);
int yaep_set_cost_flag(struct grammar *grammar, int flag);
int yaep_set_error_recovery_flag(struct grammar *grammar, int flag);
int yaep_set_recovery_match(struct grammar *grammar, int n_toks);
int yaep_parse(struct grammar *grammar, int (*read_token)(void **attr),
               void (*syntax_error)(int, void *, int, void *, int, void *), void *(*parse_alloc)(int nmemb),
               void (*parse_free)(void *mem), struct yaep_tree_node **root, int *ambiguous_p);
void yaep_free_grammar(struct grammar *grammar);
void yaep_free_tree(struct yaep_tree_node *root, void (*parse_free)(void *), void (*termcb)(struct yaep_term *term));

// ---- hooks compiled into yaep.c under #ifdef YAEP_VERIF (C library only)
#define YAEP_VERIF_MAX_REC 32
struct yaep_verif_rec {        /* one call of error_recovery */
  int err_tok;                 /* token on which the error was detected */
  int back_set;                /* parser-list index the winning alternative went back to */
  int behind;                  /* tokens dropped behind the error token (between back_set and the error) */
  int ahead;                   /* tokens skipped from the error token on */
  int start, stop;             /* what was reported */
  int n_back_advances;         /* how often the back frontier was advanced */
  int found;                   /* some alternative succeeded */
  long pops;                   /* alternatives examined */
};
struct yaep_verif_info {
  /* H1: make_parse */
  int track;                   /* in: record sources of copy_anode */
  int n_reuse, n_copy, n_reuse_of_copied, n_skipped_origin;
  /* H2: goto cache self check */
  int cache_check;             /* in: 1 = recompute on every cache hit */
  int n_hits, n_mismatch;
  /* H3: error recovery */
  long rec_limit;              /* in: >0 = give up (YAEP_NO_MEMORY) after that many alternatives */
  int rec_explosion;
  /* H5: make_parse */
  long alt_limit;              /* in: >0 = give up (YAEP_NO_MEMORY) after that many alternative nodes */
  int alt_explosion;
  /* H3 continued */
  int in_recovery;
  int n_rec;
  struct yaep_verif_rec rec[YAEP_VERIF_MAX_REC];
  /* H4: statistics of the last parse */
  int n_toks, n_sets, n_set_cores, n_set_dists, n_goto_successes, n_set_term_lookaheads;
  int tab_searches, tab_collisions;
};
extern struct yaep_verif_info yaep_verif;
}
