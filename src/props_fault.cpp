// C17: failure of any single internal allocation is reported as NULL / YAEP_NO_MEMORY, never a crash.
// Fault enumeration: for every scenario the fault-free run counts the allocation requests K of the window, then
// request k fails for EVERY k = 1..K, each in a fresh child.
#include "props.hpp"
#include <sys/wait.h>
#include <unistd.h>

namespace vf {
GramDef genTextGramPublic(Choices &c, int tier, bool mutate);
void injectDefectPublic(Choices &c, RawGram &g);
namespace {

// scenario: object A (defined, good) lives through the fault; the window works on object B:
//   window kinds: 0 create only | 1 create+define(callbacks) | 2 create+define(text) | 3 define+parse (B created and defined before the window: kind 3 = parse only)
Case genC17(Choices &c, int tier) {
  Case cs;
  cs.prop = "C17";
  GramOpts o; o.errorPct = 40; o.ambiguityBias = 25;
  // gram 0: for A; gram 1: for B (a third of them larger: more and longer rules, i.e. tables whose first row exceeds a segment)
  bool big = c.chance(35);
  for (int k = 0; k < 2; k++) {
    GramDef gd;
    GramOpts ok = o;
    if (k == 1 && big) { ok.maxT = 5; ok.maxN = 8; ok.extraRules = 26; ok.maxRhs = 6; }
    for (int tries = 0; tries < 6; tries++) {
      gd = GramDef();
      gd.raw = genGrammar(c, ok);
      gd.strict = 0;
      if (classify(gd.raw, 0).empty()) break;
    }
    cs.grams.push_back(gd);
  }
  int kind = (c.upto(5) + 3) % 6; // exhausted choices -> a parse window
  // 10 %: object B gets a grammar of hundreds of symbols (its symbol tables grow while it is read); the window is a definition
  WideInfo wi; bool wide = c.chance(10);
  if (wide) {
    GramDef gd; gd.raw = genWideGrammar(c, o, wi, 8); gd.strict = 0;
    cs.grams[1] = gd; kind = c.flip() ? 1 : 3; cs.par["wide"] = wi.copies;
  }
  if (kind == 2) cs.grams[1] = genTextGramPublic(c, 0, c.chance(30));
  if (kind == 1 && !wide && c.chance(35)) injectDefectPublic(c, cs.grams[1].raw);
  if (!wide && c.chance(20)) { elongate(c, cs.grams[1]); cs.par["longname"] = 1; }
  if (big) cs.par["big"] = 1;
  cs.par["kind"] = kind;
  for (int k = 0; k < 2; k++) {
    Gram g;
    std::vector<int> codes;
    if (toGram(cs.grams[k].raw, g) && classify(cs.grams[k].raw, cs.grams[k].strict).empty()) {
      std::vector<int> ml = minLen(g);
      if (k == 1 && wide) codes = toCodes(g, genWideInput(c, g, ml, wi, 24));
      else codes = toCodes(g, genInputIdx(c, g, ml, 8, c.chance(55) ? 0 : 1));
    }
    cs.inputs.push_back(codes);
  }
  cs.par["one"] = c.flip(); cs.par["cost"] = c.flip(); cs.par["rec"] = c.chance(70); cs.par["la"] = c.upto(2);
  cs.par["freemode"] = c.chance(20) ? 2 : (c.chance(25) ? 1 : 0);
  (void)tier;
  return cs;
}

struct Script {
  // returns a transcript; `window` = [r0, r1) allocation request numbers; when failAt > 0 checks the contract
  std::string problem;
  long r0 = 0, r1 = 0;
  std::string outA, outB;
  int failedCallRc = -99; std::string failedCall;
};

void runScript(const Case &cs, long failAt, Script &sc) {
  int kind = (int)cs.P("kind");
  Conf cf; cf.la = (int)cs.P("la", 1); cf.one = (int)cs.P("one", 1); cf.cost = (int)cs.P("cost"); cf.rec = (int)cs.P("rec"); cf.freemode = (int)cs.P("freemode");
  Conf cfa; cfa.rec = 1; cfa.one = 0;
  yaep_verif.rec_limit = REC_LIMIT;
  Binding *A = newCBinding();
  A->create();
  bool aok = defineGrammar(*A, cs.grams[0]) == 0;
  Binding *B = newCBinding();
  bool bExists = false, bDefined = false;
  if (kind >= 3) { bExists = B->create(); bDefined = bExists && defineGrammar(*B, cs.grams[1]) == 0; }
  // ---- the window
  sc.r0 = g_lib.n_requests;
  if (failAt > 0) g_lib.fail_at = sc.r0 + failAt;
  bool failureSeen = false;
  auto note = [&](const char *call, int rc, bool isCreate, bool createdOk) {
    if (g_lib.failed > 0 && !failureSeen) {
      failureSeen = true;
      sc.failedCall = call; sc.failedCallRc = isCreate ? (createdOk ? 0 : E_NOMEM) : rc;
    }
  };
  if (kind <= 2) { bExists = B->create(); note("yaep_create_grammar", 0, true, bExists); }
  if (bExists && kind >= 1 && kind <= 2) { int rc = defineGrammar(*B, cs.grams[1]); bDefined = rc == 0; note(cs.grams[1].use_text ? "yaep_parse_grammar" : "yaep_read_grammar", rc, false, false); }
  if (bExists && kind >= 3) {
    ParseOpts po; po.den_limit = 500;
    Outcome o = runParse(*B, cs.inputs[1], cf, po);
    note("yaep_parse", o.rc, false, false);
    sc.outB = o.exploded() ? "EXPLOSION" : o.tupleStr();
    if (o.t_bad_free) sc.problem = "parse_free misuse: " + o.t_bad;
    if (kind >= 4 && failAt == 0) { Outcome o2 = runParse(*B, cs.inputs[1], cf, po); sc.outB += " | " + o2.tupleStr(); }
    else if (kind >= 4) { Outcome o2 = runParse(*B, cs.inputs[1], cf, po); note("yaep_parse(2nd)", o2.rc, false, false); }
  }
  sc.r1 = g_lib.n_requests;
  g_lib.fail_at = 0;
  // ---- after the window: B can be freed, A is unaffected
  if (bExists) B->destroy();
  delete B;
  if (aok) { Outcome oa = runParse(*A, cs.inputs[0], cfa); sc.outA = oa.exploded() ? "EXPLOSION" : oa.str(); }
  A->destroy(); delete A;
  (void)bDefined;
}

Verdict runC17(const Case &cs) {
  Verdict v;
  if (cs.grams.size() < 2 || cs.inputs.size() < 2) { v.st = V_DISCARD; return v; }
  Script base;
  runScript(cs, 0, base);
  if (!base.problem.empty()) { v.fail("fault-free run: " + base.problem); return v; }
  long K = base.r1 - base.r0;
  v.labels.insert("window:" + std::string(cs.P("kind") == 0 ? "create" : cs.P("kind") == 1 ? "create+read_grammar" : cs.P("kind") == 2 ? "create+parse_grammar" : cs.P("kind") == 3 ? "parse" : "two-parses"));
  if (cs.P("freemode") == 2) v.labels.insert("default-tree-allocator");
  if (cs.P("longname")) v.labels.insert("b:name-of-400+-characters");
  if (cs.P("wide")) v.labels.insert("b:wide-grammar(" + std::string(cs.P("wide") >= 100 ? ">=100" : "<100") + "-copies)");
  if (cs.P("big")) { long pos = 0; for (auto &r : cs.grams[1].raw.rules) pos += r.rhs.size() + 1; v.labels.insert(pos > 62 ? "b:more-than-64-rule-positions" : "b:larger-grammar"); }
  if (base.outB.find("EXPLOSION") != std::string::npos || base.outA == "EXPLOSION") { v.st = V_DISCARD; v.labels.insert("excluded:F27-recovery-explosion"); return v; }
  if (K <= 0) { v.st = V_DISCARD; return v; }
  v.parses = K;
  for (long k = 1; k <= K; k++) {
    int fd[2];
    if (pipe(fd)) { v.st = V_INCONCLUSIVE; return v; }
    pid_t pid = fork();
    if (pid == 0) {
      reattachReports();
      close(fd[0]);
      Script sc;
      runScript(cs, k, sc);
      std::string r;
      if (!sc.problem.empty()) r = "BAD " + sc.problem;
      else if (g_lib.failed == 0) r = "NOFAIL";
      else if (sc.failedCallRc != E_NOMEM) r = "BAD " + sc.failedCall + " returned " + std::to_string(sc.failedCallRc) + " instead of " + (sc.failedCall == "yaep_create_grammar" ? "NULL" : "YAEP_NO_MEMORY") + " when allocation request " + std::to_string(k) + " of " + std::to_string(K) + " failed";
      else if (sc.outA != base.outA) r = "BAD another object was affected by the failure: " + sc.outA + " instead of " + base.outA;
      else r = "OK " + sc.failedCall;
      r = oneLineStr(r) + "\n";
      ssize_t wr = write(fd[1], r.data(), r.size()); (void)wr;
      _exit(0);
    }
    close(fd[1]);
    std::string buf; char tmp[4096];
    for (;;) { ssize_t n = read(fd[0], tmp, sizeof tmp); if (n <= 0) break; buf.append(tmp, n); }
    close(fd[0]);
    int status = 0;
    waitpid(pid, &status, 0);
    if (buf.rfind("OK ", 0) == 0) { v.labels.insert("failed-in:" + buf.substr(3, buf.find('\n') - 3)); continue; }
    if (buf.rfind("NOFAIL", 0) == 0) { v.labels.insert("k-beyond-run(nondeterministic-count)"); continue; }
    std::string why = buf.rfind("BAD ", 0) == 0 ? buf.substr(4) : ("crash, abort or exit() when allocation request " + std::to_string(k) + " of " + std::to_string(K) + " fails (status " + std::to_string(status) + ")");
    v.fail(oneLineStr(why));
    return v;
  }
  if (K >= 10) v.nontrivial = true;
  return v;
}

} // namespace

void dbgFault(const Case &cs, long k) { Script sc; runScript(cs, k, sc); printf("failedCall=%s rc=%d problem=%s\n", sc.failedCall.c_str(), sc.failedCallRc, sc.problem.c_str()); }

extern const PropDef g_props_fault[] = {
    {"C17", genC17, runC17,
     "scenario = a defined object A plus a window on object B: {create | create+read_grammar (35% defective) | create+parse_grammar (30% mutated "
     "text) | parse | two parses} with random grammar, input (45% non-sentences), flags and tree allocator {tracking, alloc-only, default}; the "
     "fault-free run counts the K allocation requests of the window (malloc/calloc/realloc of the library redirected by objcopy), then for "
     "EVERY k in 1..K a fresh child makes request k return NULL; oracle: the call in progress returns NULL / YAEP_NO_MEMORY, no sanitizer "
     "report or exit(), B can be freed, A still produces its fault-free outcome. evaluations counts scenarios, library_calls the injected "
     "faults. Non-trivial: K >= 10. Each scenario is enumerated exhaustively.",
     60},
};
extern const int g_nprops_fault = 1;

} // namespace vf
