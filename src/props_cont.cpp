// C19: hash table, object stack and variable length object keep their abstract contents (C and C++ implementations).
#include "props.hpp"
#include "allocate.h"
#include "hashtab.h"
#include "objstack.h"
#include "vlobject.h"

extern "C" {
void cs_init(void);
void *cs_ht_create(size_t size, int kind); void cs_ht_delete(void *h); void cs_ht_empty(void *h);
int cs_ht_find(void *h, const long *key); int cs_ht_insert(void *h, const long *key); void cs_ht_remove(void *h, const long *key);
size_t cs_ht_count(void *h); size_t cs_ht_size(void *h);
void *cs_os_create(size_t init); void cs_os_delete(void *o); void cs_os_empty(void *o); void cs_os_add_byte(void *o, int b);
void cs_os_add_memory(void *o, const void *p, size_t n); void cs_os_add_string(void *o, const char *s); void cs_os_expand(void *o, size_t n);
void cs_os_shorten(void *o, size_t n); void cs_os_nullify(void *o); void cs_os_finish(void *o); size_t cs_os_top_length(void *o); void *cs_os_top_begin(void *o);
void *cs_vlo_create(size_t init); void cs_vlo_delete(void *v); void cs_vlo_add_byte(void *v, int b); void cs_vlo_add_memory(void *v, const void *p, size_t n);
void cs_vlo_add_string(void *v, const char *s); void cs_vlo_expand(void *v, size_t n); void cs_vlo_shorten(void *v, size_t n); void cs_vlo_nullify(void *v);
void cs_vlo_tailor(void *v); size_t cs_vlo_length(void *v); void *cs_vlo_begin(void *v);
}

namespace vf {
namespace {

const int NKEYS = 64;
long g_keys[NKEYS];
unsigned xh_ident(hash_table_entry_t e) { return (unsigned)*(const long *)e; }
unsigned xh_mod7(hash_table_entry_t e) { return (unsigned)(*(const long *)e % 7); }
unsigned xh_const(hash_table_entry_t) { return 42; }
unsigned xh_mult(hash_table_entry_t e) { return (unsigned)(*(const long *)e * 2654435761u); }
int xh_eq(hash_table_entry_t a, hash_table_entry_t b) { return *(const long *)a == *(const long *)b; }
YaepAllocator *xalloc() { static YaepAllocator *a = yaep_alloc_new(NULL, NULL, NULL, NULL); return a; }

// which: 0 C hash table, 1 C++ hash table, 2 C object stack, 3 C++ object stack, 4 C vlo, 5 C++ vlo
Case genC19(Choices &c, int tier) {
  Case cs;
  cs.prop = "C19";
  int which = c.upto(5);
  cs.par["which"] = which;
  int nops = c.range(5, tier ? 400 : 120);
  if (which <= 1) {
    static const int sizes[] = {0, 1, 3, 10, 100};
    cs.par["size"] = sizes[c.upto(4)];
    cs.par["hash"] = c.upto(3);
    int span = c.chance(50) ? NKEYS : 1 + c.upto(15);
    for (int i = 0; i < nops; i++) {
      Op op; int k = c.upto(99);
      op.kind = k < 45 ? "ins" : k < 75 ? "rem" : k < 97 ? "find" : "empty";
      op.a = {c.upto(span - 1)};
      cs.ops.push_back(op);
    }
  } else {
    static const int inits[] = {0, 1, 8, 64, 512, 3000};
    cs.par["init"] = inits[c.upto(5)];
    for (int i = 0; i < nops; i++) {
      Op op; int k = c.upto(99);
      static const int lens[] = {0, 1, 2, 7, 8, 15, 63, 64, 200, 511, 512, 513, 1000, 3000};
      long len = c.chance(70) ? lens[c.upto(13)] : c.upto(700);
      if (k < 18) { op.kind = "byte"; op.a = {c.upto(255)}; }
      else if (k < 42) { op.kind = "mem"; op.a = {len, c.upto(255)}; }
      else if (k < 52) { op.kind = "str"; op.a = {c.chance(80) ? c.upto(40) : len, 1 + c.upto(200)}; }
      else if (k < 64) { op.kind = "expand"; op.a = {len, c.upto(255)}; }
      else if (k < 76) { op.kind = "shorten"; op.a = {c.chance(80) ? c.upto(20) : len}; }
      else if (k < 82) { op.kind = "nullify"; }
      else if (which <= 3 && k < 96) { op.kind = "finish"; }
      else if (which <= 3 && k < 98) { op.kind = "empty"; }
      else if (which >= 4 && k < 90) { op.kind = "tailor"; }
      else { op.kind = "byte"; op.a = {c.upto(255)}; }
      cs.ops.push_back(op);
    }
  }
  return cs;
}

Verdict runHash(const Case &cs, bool cxx) {
  Verdict v;
  for (int i = 0; i < NKEYS; i++) g_keys[i] = i * 7 + 3;
  size_t size = cs.P("size"); int hk = (int)cs.P("hash");
  void *ch = nullptr; hash_table *xh = nullptr;
  if (cxx) xh = new hash_table(xalloc(), size, hk == 0 ? xh_ident : hk == 1 ? xh_mod7 : hk == 2 ? xh_const : xh_mult, xh_eq);
  else ch = cs_ht_create(size, hk);
  std::set<int> model, everRemoved;
  size_t size0 = cxx ? xh->size() : cs_ht_size(ch);
  auto find = [&](int k) { if (cxx) { hash_table_entry_t *e = xh->find_entry(&g_keys[k], 0); return *e != NULL && *e == (hash_table_entry_t)&g_keys[k]; } return cs_ht_find(ch, &g_keys[k]) != 0; };
  auto count = [&]() { return cxx ? xh->elements_number() : cs_ht_count(ch); };
  int step = 0;
  bool expanded = false, reusedDeleted = false;
  for (auto &op : cs.ops) {
    step++;
    int k = op.a.empty() ? 0 : (int)op.a[0] % NKEYS;
    std::string at = " (step " + std::to_string(step) + ": " + op.kind + " " + std::to_string(k) + ", " + (cxx ? "C++" : "C") + " hash table, hash kind " + std::to_string(hk) + ", initial size " + std::to_string(size) + ")";
    if (op.kind == "ins") {
      int r;
      if (cxx) { hash_table_entry_t *e = xh->find_entry(&g_keys[k], 1); if (*e != NULL) r = ((const long *)*e >= g_keys && (const long *)*e < g_keys + NKEYS && xh_eq(*e, &g_keys[k])) ? 0 : -1; else { *e = &g_keys[k]; r = 1; } }
      else r = cs_ht_insert(ch, &g_keys[k]);
      if (r == -1) { v.fail("the entry reserved for a new element is not empty (it cannot be told from a found element)" + at); return v; }
      if ((r == 1) != (model.count(k) == 0)) { v.fail(std::string("insert ") + (r ? "stored a second copy of a present element" : "found an element that was never inserted or was removed") + at); return v; }
      if (r == 1 && !everRemoved.empty()) reusedDeleted = true;
      model.insert(k);
    } else if (op.kind == "rem") {
      if (!model.count(k)) continue; // the header allows removal of present elements only
      if (cxx) xh->remove_element_from_entry(&g_keys[k]); else cs_ht_remove(ch, &g_keys[k]);
      model.erase(k); everRemoved.insert(k);
    } else if (op.kind == "empty") {
      if (cxx) xh->empty(); else cs_ht_empty(ch);
      model.clear(); everRemoved.clear();
    }
    for (int q = 0; q < NKEYS; q++)
      if (find(q) != (model.count(q) != 0)) { v.fail(std::string("element ") + std::to_string(q) + (model.count(q) ? " was inserted and not removed but is not found" : " is found but was removed or never inserted") + at); return v; }
    if (count() != model.size()) { v.fail("elements_number is " + std::to_string(count()) + ", the table holds " + std::to_string(model.size()) + at); return v; }
    if ((cxx ? xh->size() : cs_ht_size(ch)) != size0) expanded = true;
  }
  if (cxx) delete xh; else cs_ht_delete(ch);
  if (expanded) v.labels.insert("t:table-expanded");
  if (reusedDeleted) v.labels.insert("t:insert-after-removals");
  if (expanded || reusedDeleted) v.nontrivial = true;
  return v;
}

struct SeqModel { // object stack: finished objects + top; vlo: only top
  std::vector<std::pair<char *, std::vector<unsigned char>>> finished;
  std::vector<unsigned char> top;
};
Verdict runSeq(const Case &cs, int which) {
  Verdict v;
  bool isOs = which <= 3, cxx = which & 1;
  size_t init = cs.P("init");
  void *co = nullptr; os *xo = nullptr; vlo *xv = nullptr;
  if (isOs) { if (cxx) xo = new os(xalloc(), init); else co = cs_os_create(init); }
  else { if (cxx) xv = new vlo(xalloc(), init); else co = cs_vlo_create(init); }
  SeqModel m;
  auto length = [&]() -> size_t { return isOs ? (cxx ? (size_t)xo->top_length() : cs_os_top_length(co)) : (cxx ? (size_t)xv->length() : cs_vlo_length(co)); };
  auto begin = [&]() -> unsigned char * { return (unsigned char *)(isOs ? (cxx ? xo->top_begin() : cs_os_top_begin(co)) : (cxx ? xv->begin() : cs_vlo_begin(co))); };
  std::string name = std::string(cxx ? "C++ " : "C ") + (isOs ? "object stack" : "variable length object") + ", initial length " + std::to_string(init);
  int step = 0; bool moved = false; unsigned char *lastBegin = begin();
  std::vector<unsigned char> buf(4096);
  for (auto &op : cs.ops) {
    step++;
    std::string at = " (step " + std::to_string(step) + ": " + op.kind + (op.a.empty() ? "" : " " + std::to_string(op.a[0])) + ", " + name + ")";
    size_t n = op.a.empty() ? 0 : (size_t)op.a[0];
    if (n > 3000) n = 3000;
    unsigned char fill = op.a.size() > 1 ? (unsigned char)op.a[1] : 0;
    if (op.kind == "byte") {
      unsigned char b = (unsigned char)op.a[0];
      if (isOs) { if (cxx) xo->top_add_byte(b); else cs_os_add_byte(co, b); } else { if (cxx) xv->add_byte(b); else cs_vlo_add_byte(co, b); }
      m.top.push_back(b);
    } else if (op.kind == "mem") {
      for (size_t i = 0; i < n; i++) buf[i] = (unsigned char)(fill + i * 13);
      if (isOs) { if (cxx) xo->top_add_memory(buf.data(), n); else cs_os_add_memory(co, buf.data(), n); } else { if (cxx) xv->add_memory(buf.data(), n); else cs_vlo_add_memory(co, buf.data(), n); }
      m.top.insert(m.top.end(), buf.begin(), buf.begin() + n);
    } else if (op.kind == "str") {
      std::string s(n, (char)(fill ? fill : 1));
      // the documented semantics: the last byte of the object (a string terminator) is replaced
      if (isOs) { if (cxx) xo->top_add_string(s.c_str()); else cs_os_add_string(co, s.c_str()); } else { if (cxx) xv->add_string(s.c_str()); else cs_vlo_add_string(co, s.c_str()); }
      if (!m.top.empty()) m.top.pop_back();
      m.top.insert(m.top.end(), s.begin(), s.end());
      m.top.push_back(0);
    } else if (op.kind == "expand") {
      if (isOs) { if (cxx) xo->top_expand(n); else cs_os_expand(co, n); } else { if (cxx) xv->expand(n); else cs_vlo_expand(co, n); }
      if (length() != m.top.size() + n) { v.fail("length after expand is " + std::to_string(length()) + ", expected " + std::to_string(m.top.size() + n) + at); return v; }
      unsigned char *b = begin();
      for (size_t i = 0; i < n; i++) b[m.top.size() + i] = (unsigned char)(fill ^ i); // the caller fills the new bytes
      for (size_t i = 0; i < n; i++) m.top.push_back((unsigned char)(fill ^ i));
    } else if (op.kind == "shorten") {
      if (isOs) { if (cxx) xo->top_shorten(n); else cs_os_shorten(co, n); } else { if (cxx) xv->shorten(n); else cs_vlo_shorten(co, n); }
      if (n >= m.top.size()) m.top.clear(); else m.top.resize(m.top.size() - n);
    } else if (op.kind == "nullify") {
      if (isOs) { if (cxx) xo->top_nullify(); else cs_os_nullify(co); } else { if (cxx) xv->nullify(); else cs_vlo_nullify(co); }
      m.top.clear();
    } else if (op.kind == "finish" && isOs) {
      char *addr = (char *)begin();
      m.finished.push_back({addr, m.top});
      if (cxx) xo->top_finish(); else cs_os_finish(co);
      m.top.clear();
      lastBegin = begin();
    } else if (op.kind == "empty" && isOs) {
      if (cxx) xo->empty(); else cs_os_empty(co);
      m.finished.clear(); m.top.clear();
      lastBegin = begin();
    } else if (op.kind == "tailor" && !isOs) {
      if (cxx) xv->tailor(); else cs_vlo_tailor(co);
    } else continue;
    // invariants after every operation
    if (length() != m.top.size()) { v.fail("length is " + std::to_string(length()) + ", the bytes appended minus those removed are " + std::to_string(m.top.size()) + at); return v; }
    unsigned char *b = begin();
    if (b != lastBegin) { moved = true; lastBegin = b; }
    if (!m.top.empty() && memcmp(b, m.top.data(), m.top.size()) != 0) { v.fail("contents of the " + std::string(isOs ? "top object" : "object") + " differ from the bytes appended so far" + at); return v; }
    for (auto &f : m.finished)
      if (!f.second.empty() && memcmp(f.first, f.second.data(), f.second.size()) != 0) { v.fail("a finished object was altered or moved" + at); return v; }
    // a finished object never overlaps the top object
    for (auto &f : m.finished)
      if (!f.second.empty() && !m.top.empty() && (unsigned char *)f.first < b + m.top.size() && b < (unsigned char *)f.first + f.second.size()) { v.fail("the top object overlaps a finished object" + at); return v; }
  }
  if (isOs) { if (cxx) delete xo; else cs_os_delete(co); } else { if (cxx) delete xv; else cs_vlo_delete(co); }
  if (moved) { v.labels.insert(isOs ? "s:top-object-moved-to-new-segment" : "s:vlo-moved"); v.nontrivial = true; }
  if (m.finished.size() >= 3) v.labels.insert("s:several-finished-objects");
  return v;
}

Verdict runC19(const Case &cs) {
  int which = (int)cs.P("which");
  cs_init(); (void)xalloc(); // the allocators themselves stay
  long base = g_lib.live_blocks;
  Verdict v = which <= 1 ? runHash(cs, which == 1) : runSeq(cs, which);
  static const char *nm[] = {"C hash table", "C++ hash table", "C object stack", "C++ object stack", "C vlo", "C++ vlo"};
  v.labels.insert(std::string("c:") + nm[which % 6]);
  if (v.st == V_PASS && g_lib.live_blocks != base) v.fail("the container left " + std::to_string(g_lib.live_blocks - base) + " blocks allocated after it was deleted");
  v.parses = cs.ops.size();
  return v;
}

} // namespace

extern const PropDef g_props_cont[] = {
    {"C19", genC19, runC19,
     "random operation sequences (5-120, thorough 400) on one of 6 containers (C and C++ hash table / object stack / variable length object). "
     "Hash table: boxed ints from a 64-key universe, hash function {identity, mod 7, constant, multiplicative}, initial size {0,1,3,10,100}, "
     "operations insert (reserve then fill) / remove (present elements only) / find / empty; after EVERY operation membership of all 64 keys and "
     "elements_number are compared with a std::set. Object stack / VLO: add byte, memory (lengths around 0,1,8,64,512,3000), string, expand+fill, "
     "shorten, nullify, finish, empty, tailor with initial lengths {0,1,8,64,512,3000}; after every operation the top object equals the model "
     "bytes, every finished object still holds its bytes at its recorded address and does not overlap the top object; all under ASan; nothing "
     "left allocated after delete. Non-trivial: the table expanded, or an insert after removals, or the top object / VLO moved.",
     20},
};
extern const int g_nprops_cont = 1;

} // namespace vf
