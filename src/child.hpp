// Process isolation: every case is executed in a forked child; a crash, a
// sanitizer report, exit() inside the library or a watchdog expiry is an
// ordinary verdict in the parent.
#pragma once
#include "props.hpp"
#include <signal.h>
#include <sys/wait.h>
#include <unistd.h>
#include <poll.h>
#include <fcntl.h>

namespace vf {

inline std::string oneLine(const std::string &s) {
  std::string o;
  for (char c : s) o += (c == '\n' || c == '\r') ? ' ' : c;
  return o;
}

// ---- worker body: runs in the process that executes the case
extern "C" void __sanitizer_set_report_fd(void *fd);
inline void workerBody(const PropDef &pd, const Case &cs, int timeout_s, int outfd) {
  dup2(outfd, 2); // sanitizer reports and library chatter go to the parent
  int rfd = dup2(outfd, 250);
  if (rfd >= 0) __sanitizer_set_report_fd((void *)(long)rfd); // reports survive a redirection of fd 2 (debug output of the library)
  int devnull = open("/dev/null", O_WRONLY);
  if (devnull >= 0) dup2(devnull, 1);
  alarm(timeout_s);
  Verdict r = pd.run(cs);
  std::string out = "\n@@ST " + std::to_string(r.st) + "\n@@NT " + std::to_string(r.nontrivial ? 1 : 0) + "\n@@PA " + std::to_string(r.parses) + "\n";
  if (!r.known.empty()) out += "@@KN " + r.known + "\n";
  for (auto &l : r.labels) out += "@@LB " + l + "\n";
  out += "@@MSG " + oneLine(r.msg) + "\n@@END\n";
  size_t off = 0;
  while (off < out.size()) { ssize_t k = write(outfd, out.data() + off, out.size() - off); if (k <= 0) break; off += k; }
  _exit(0);
}

inline Verdict decodeVerdict(const std::string &buf, int status, int timeout_s) {
  Verdict v;
  size_t endp = buf.find("@@END");
  size_t stp = buf.rfind("\n@@ST ");
  if (endp != std::string::npos && stp != std::string::npos) {
    std::istringstream is(buf.substr(stp));
    std::string line;
    while (std::getline(is, line)) {
      if (line.rfind("@@ST ", 0) == 0) v.st = atoi(line.c_str() + 5);
      else if (line.rfind("@@NT ", 0) == 0) v.nontrivial = atoi(line.c_str() + 5) != 0;
      else if (line.rfind("@@PA ", 0) == 0) v.parses = atol(line.c_str() + 5);
      else if (line.rfind("@@KN ", 0) == 0) v.known = line.substr(5);
      else if (line.rfind("@@LB ", 0) == 0) v.labels.insert(line.substr(5));
      else if (line.rfind("@@MSG ", 0) == 0) v.msg = line.substr(6);
    }
    return v;
  }
  // no verdict: the worker died
  // keep the informative part of a sanitizer report: the ERROR/runtime-error line and the first frames
  std::string tail;
  {
    std::istringstream is(buf);
    std::string line; int frames = 0;
    while (std::getline(is, line)) {
      if (line.find("ERROR:") != std::string::npos || line.find("runtime error") != std::string::npos || line.find("SUMMARY") != std::string::npos || line.find("Assertion") != std::string::npos) tail += line + " | ";
      else if (line.find("    #") == 0 && frames < 4 && line.find("/repo/") != std::string::npos) { tail += line.substr(4) + " | "; frames++; }
    }
    if (tail.empty()) tail = buf.size() > 600 ? buf.substr(buf.size() - 600) : buf;
    if (tail.size() > 1500) tail.resize(1500);
  }
  if (WIFSIGNALED(status) && WTERMSIG(status) == SIGALRM) {
    v.st = V_INCONCLUSIVE;
    v.msg = "watchdog: no verdict within " + std::to_string(timeout_s) + " s";
    v.labels.insert("inconclusive:timeout");
    return v;
  }
  v.st = V_FAIL;
  if (WIFSIGNALED(status)) v.msg = "child killed by signal " + std::to_string(WTERMSIG(status));
  else v.msg = "child exited with status " + std::to_string(WEXITSTATUS(status)) + " without a verdict (sanitizer report, abort or exit() inside the library)";
  v.msg += ": " + oneLine(tail);
  v.labels.insert("crash");
  return v;
}

// ---- fork server ("zygote"): forked before rapidcheck allocates anything, so
// that forking a worker stays cheap however large the driver process grows.
struct Zygote { int toZ = -1, fromZ = -1; pid_t pid = -1; };
inline Zygote &zygote() { static Zygote z; return z; }
inline bool readFull(int fd, void *p, size_t n) { char *c = (char *)p; while (n) { ssize_t k = read(fd, c, n); if (k <= 0) return false; c += k; n -= k; } return true; }
inline bool writeFull(int fd, const void *p, size_t n) { const char *c = (const char *)p; while (n) { ssize_t k = write(fd, c, n); if (k <= 0) return false; c += k; n -= k; } return true; }
inline void startZygote() {
  int a[2], b[2];
  if (pipe(a) || pipe(b)) return;
  fflush(stdout); fflush(stderr);
  pid_t pid = fork();
  if (pid < 0) return;
  if (pid == 0) {
    close(a[1]); close(b[0]);
    signal(SIGPIPE, SIG_IGN);
    for (;;) {
      int32_t hdr[2];
      if (!readFull(a[0], hdr, sizeof hdr)) _exit(0);
      std::string txt(hdr[1], '\0');
      if (!readFull(a[0], &txt[0], hdr[1])) _exit(0);
      Case cs;
      const PropDef *pd = parseCase(txt, cs) ? findProp(cs.prop) : nullptr;
      int status = 0;
      if (!pd) { const char *m = "\n@@ST 4\n@@MSG zygote could not parse the case\n@@END\n"; writeFull(b[1], m, strlen(m)); }
      else {
        pid_t w = fork();
        if (w == 0) { close(a[0]); workerBody(*pd, cs, hdr[0], b[1]); }
        if (w < 0) { const char *m = "\n@@ST 4\n@@MSG fork failed\n@@END\n"; writeFull(b[1], m, strlen(m)); }
        else waitpid(w, &status, 0);
      }
      char e[64];
      snprintf(e, sizeof e, "\n@@EXIT %d\n", status);
      writeFull(b[1], e, strlen(e));
    }
  }
  close(a[0]); close(b[1]);
  zygote().toZ = a[1]; zygote().fromZ = b[0]; zygote().pid = pid;
}

inline Verdict runInChild(const PropDef &pd, const Case &cs, int timeout_s = 0) {
  if (timeout_s <= 0) timeout_s = pd.timeout_s;
  Zygote &z = zygote();
  if (z.pid > 0) {
    std::string txt = caseText(cs);
    int32_t hdr[2] = {timeout_s, (int32_t)txt.size()};
    Verdict v;
    if (!writeFull(z.toZ, hdr, sizeof hdr) || !writeFull(z.toZ, txt.data(), txt.size())) { v.st = V_INCONCLUSIVE; v.msg = "zygote gone"; return v; }
    std::string buf;
    char tmp[65536];
    int status = 0;
    for (;;) {
      ssize_t k = read(z.fromZ, tmp, sizeof tmp);
      if (k <= 0) { v.st = V_INCONCLUSIVE; v.msg = "zygote closed the pipe"; return v; }
      if (buf.size() < (8u << 20)) buf.append(tmp, k);
      size_t p = buf.rfind("\n@@EXIT ");
      if (p != std::string::npos && buf.find('\n', p + 1) != std::string::npos) { status = atoi(buf.c_str() + p + 8); buf.resize(p); break; }
    }
    return decodeVerdict(buf, status, timeout_s);
  }
  int fd[2];
  Verdict v;
  if (pipe(fd) != 0) { v.st = V_INCONCLUSIVE; v.msg = "pipe failed"; return v; }
  fflush(stdout); fflush(stderr);
  pid_t pid = fork();
  if (pid < 0) { close(fd[0]); close(fd[1]); v.st = V_INCONCLUSIVE; v.msg = "fork failed"; return v; }
  if (pid == 0) { close(fd[0]); workerBody(pd, cs, timeout_s, fd[1]); }
  close(fd[1]);
  std::string buf;
  char tmp[65536];
  for (;;) {
    ssize_t k = read(fd[0], tmp, sizeof tmp);
    if (k <= 0) break;
    if (buf.size() < (8u << 20)) buf.append(tmp, k);
  }
  close(fd[0]);
  int status = 0;
  waitpid(pid, &status, 0);
  return decodeVerdict(buf, status, timeout_s);
}

} // namespace vf
