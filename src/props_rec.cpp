// C06-C08: syntax error reporting and error recovery.
#include "props.hpp"

namespace vf {

// ---------------------------------------------------------------- helpers shared with props_parse (duplicated on purpose: small)
static std::string inputStr(const std::vector<int> &codes) {
  std::string s = "[";
  for (int c : codes) s += std::to_string(c) + " ";
  return s + "]";
}
static bool startHasErrorInitialRule(const Gram &g) {
  for (auto &r : g.rules) if (r.lhs == g.start && !r.rhs.empty() && r.rhs[0] == g.errT) return true;
  return false;
}
static std::string errsStr(const std::vector<ErrCall> &e) { std::string s; for (auto &x : e) s += x.str(); return s; }

static Case genRecCase(Choices &c, int tier, const char *prop, int errorPct, bool fullYield, int nInputs, bool strictOnly) {
  Case cs;
  cs.prop = prop;
  GramOpts o;
  o.errorPct = errorPct;
  o.fullYield = fullYield;
  o.ambiguityBias = 5;
  if (tier) { o.maxT = 4; o.maxN = 5; o.extraRules += 2; }
  GramDef gd;
  bool block = errorPct > 0 && c.upto(9) >= 7; // 30%: block-structured template with several error rules
  bool chain = !block && c.chance(15); // chain template (see gen.hpp), with an error rule at the end of a start rule
  if (chain) { GramOpts oc = o; oc.errorPct = 100; gd.raw = genChainGrammar(c, oc); }
  else gd.raw = block ? genBlockGrammar(c, o) : genGrammar(c, o);
  gd.strict = strictOnly ? 1 : c.flip();
  if (!strictOnly && !classify(gd.raw, gd.strict).empty() && classify(gd.raw, !gd.strict).empty()) gd.strict = !gd.strict;
  cs.grams.push_back(gd);
  Gram g;
  if (!toGram(gd.raw, g) || !classify(gd.raw, gd.strict).empty()) return cs;
  std::vector<int> ml = minLen(g);
  int maxLen = tier ? 14 : 9;
  if (block || chain) maxLen += 4;
  for (int k = 0; k < nInputs; k++) {
    int kind = c.chance(10) ? 0 : (c.chance(75) ? 1 : 2);
    cs.inputs.push_back(toCodes(g, genInputIdx(c, g, ml, maxLen, kind)));
  }
  cs.par["match"] = c.range(1, 5);
  return cs;
}

struct RecCtx {
  Gram g;
  Info in;
};
static bool prep(const Case &cs, RecCtx &x, Verdict &v) {
  if (cs.grams.empty()) { v.st = V_DISCARD; return false; }
  const GramDef &gd = cs.grams[0];
  if (!toGram(gd.raw, x.g) || !classify(gd.raw, gd.strict).empty()) {
    v.st = V_DISCARD; v.msg = "grammar not acceptable by the reference classifier"; v.labels.insert("discard:grammar-rejected");
    return false;
  }
  x.in = analyse(x.g);
  bool err = false;
  for (auto &r : x.g.rules) for (int s : r.rhs) if (s == x.g.errT) err = true;
  v.labels.insert(err ? "g:error-rules" : "g:no-error-rules");
  return true;
}
static Binding *freshDefined(const Case &cs, Verdict &v) {
  Binding *b = newCBinding();
  if (!b->create()) { v.fail("yaep_create_grammar returned NULL"); return nullptr; }
  int rc = defineGrammar(*b, cs.grams[0]);
  if (rc != 0) {
    v.st = V_DISCARD; v.msg = "library rejected a grammar the reference accepts: rc=" + std::to_string(rc) + " " + b->error_message();
    v.labels.insert("discard:definition-disagreement");
    return nullptr;
  }
  return b;
}

// ================================================================= C06
static Case genC06(Choices &c, int tier) { return genRecCase(c, tier, "C06", 50, false, 3, true); }
static Verdict runC06(const Case &cs) {
  Verdict v; RecCtx x;
  if (!prep(cs, x, v)) return v;
  bool errInit = startHasErrorInitialRule(x.g);
  int match = (int)cs.P("match", 3);
  for (auto &codes : cs.inputs) {
    std::vector<int> w;
    if (!toIdx(x.g, codes, w)) { v.st = V_DISCARD; return v; }
    int n = w.size();
    int re = refParse(x.g, x.in, w);
    if (re < 0) { v.labels.insert("in:sentence(skipped)"); continue; }
    if (re == n) v.labels.insert("in:error-at-eof");
    if (re == 0) v.labels.insert("in:error-at-token-0");
    if (n >= 3 && re > 0) v.nontrivial = true;
    for (int la = 0; la < 3; la++) for (int rec = 0; rec < 2; rec++) {
      Binding *b = freshDefined(cs, v);
      if (!b) return v;
      Conf cf; cf.la = la; cf.one = 1; cf.rec = rec; cf.match = match;
      ParseOpts po; po.analyse_tree = false;
      yaep_verif.rec_limit = REC_LIMIT;
      Outcome o = runParse(*b, codes, cf, po);
      v.parses++;
      std::string where = " [" + cf.str() + " input=" + inputStr(codes) + " reference error token=" + std::to_string(re) + "] got " + o.str();
      if (o.exploded()) { v.labels.insert(o.explosionLabel()); b->destroy(); delete b; continue; }
      if (o.rc != 0) { v.fail("yaep_parse returned " + std::to_string(o.rc) + where); return v; }
      if (o.errs.empty()) { v.fail("no syntax_error call for a non-sentence" + where); return v; }
      const ErrCall f = o.errs[0];
      if (f.e != re) { v.fail("first syntax_error call does not report the first offending token" + where); return v; }
      if (f.ea != (re < n ? re : -1)) { v.fail("attribute of the error token is not that token's attribute" + where); return v; }
      if (!rec) {
        if (o.errs.size() != 1) { v.fail("recovery off: more than one syntax_error call" + where); return v; }
        if (f.s != -1 || f.r != -1 || f.sa != -1 || f.ra != -1) { v.fail("recovery off: recovery arguments are not (-1, NULL, -1, NULL)" + where); return v; }
      } else {
        int prev = -1;
        if (errInit && !o.root && o.errs.back().s == -1 && o.errs.back().r == -1 && o.errs.back().sa == -1 && o.errs.back().ra == -1) {
          // no recovery exists (start symbol has an `error'-initial rule): the parse ends as without recovery
          if (kfListed("KF-C07-no-recovery-without-implicit-rule")) {
            v.known = "KF-C07-no-recovery-without-implicit-rule"; if (v.st == V_PASS) v.st = V_KNOWN;
            v.labels.insert("attributed:KF-C07-no-recovery-without-implicit-rule");
            o.errs.pop_back();
          }
        }
        for (auto &e : o.errs) {
          if (!(0 <= e.s && e.s <= e.r && e.r <= n)) { v.fail("recovery on: not 0 <= first ignored <= first recovered <= token count" + where); return v; }
          if (!(0 <= e.e && e.e <= n)) { v.fail("recovery on: error token outside the input" + where); return v; }
          if (e.ea != (e.e < n ? e.e : -1) || e.sa != (e.s < n ? e.s : -1) || e.ra != (e.r < n ? e.r : -1)) { v.fail("recovery on: an attribute does not belong to the reported index" + where); return v; }
          if (e.e <= prev) { v.fail("recovery on: error tokens do not strictly increase" + where); return v; }
          prev = e.e;
        }
        if (o.errs.size() >= 2) v.labels.insert("r:several-callbacks");
        if (f.r - f.s > 0) v.labels.insert("r:tokens-ignored");
        if (f.s < f.e) v.labels.insert("r:ignored-behind-error");
      }
      b->destroy(); delete b;
    }
  }
  return v;
}


// ================================================================= C07 / C08
// leaves of one denoted tree, in order (from its canonical string)
struct Leaf { bool err; long code, attr; };
static std::vector<Leaf> leavesOf(const std::string &t) {
  std::vector<Leaf> v;
  for (size_t i = 0; i < t.size();) {
    bool boundary = i == 0 || t[i - 1] == '(' || t[i - 1] == ' ';
    if (boundary && t.compare(i, 3, "ERR") == 0 && (i + 3 == t.size() || t[i + 3] == ' ' || t[i + 3] == ')')) { v.push_back({true, 0, 0}); i += 3; continue; }
    if (boundary && t[i] == 't' && i + 1 < t.size() && (isdigit((unsigned char)t[i + 1]) || t[i + 1] == '-')) {
      size_t j = i + 1;
      while (j < t.size() && t[j] != '@' && t[j] != ' ' && t[j] != ')' && t[j] != '(') j++;
      if (j < t.size() && t[j] == '@') {
        long code = atol(t.c_str() + i + 1), attr = atol(t.c_str() + j + 1);
        size_t k = j + 1;
        while (k < t.size() && (isdigit((unsigned char)t[k]) || t[k] == '-')) k++;
        if (k == t.size() || t[k] == ' ' || t[k] == ')') { v.push_back({false, code, attr}); i = k; continue; }
      }
    }
    i++;
  }
  return v;
}
// rewrite the attribute indexes of the TERM leaves of a canonical string
static std::string withAttrs(const std::string &t, const std::vector<long> &attrs) {
  std::string o;
  size_t li = 0;
  for (size_t i = 0; i < t.size();) {
    bool boundary = i == 0 || t[i - 1] == '(' || t[i - 1] == ' ';
    if (boundary && t[i] == 't' && i + 1 < t.size() && (isdigit((unsigned char)t[i + 1]) || t[i + 1] == '-')) {
      size_t j = i + 1;
      while (j < t.size() && t[j] != '@' && t[j] != ' ' && t[j] != ')' && t[j] != '(') j++;
      if (j < t.size() && t[j] == '@') {
        size_t k = j + 1;
        while (k < t.size() && (isdigit((unsigned char)t[k]) || t[k] == '-')) k++;
        if (k == t.size() || t[k] == ' ' || t[k] == ')') {
          o += t.substr(i, j + 1 - i) + std::to_string(li < attrs.size() ? attrs[li] : -9);
          li++;
          i = k;
          continue;
        }
      }
    }
    o += t[i++];
  }
  return o;
}

struct RepairCheck {
  bool ok = false;
  std::string why;
  bool singleSegment = false; // exactly one ERR leaf
  int segA = -1, segB = -1;   // the replaced segment [segA, segB) when singleSegment
};
// Does tree string `t' (whose TERM leaves sit at original token indexes surv[]) translate a derivation of the repaired input?
static RepairCheck checkRepair(const Aug &ag, const Info &agi, const Gram &g, const std::vector<int> &w, const std::string &t,
                               const std::vector<Leaf> &lv, const std::vector<long> &surv, long reportedTotal, bool rootIsNil) {
  RepairCheck rc;
  int n = w.size();
  // surviving tokens: strictly increasing indexes with matching codes
  long prev = -1;
  size_t si = 0;
  std::vector<int> r, attrOf;
  int nErr = 0;
  std::vector<int> missingBetween; // per gap
  std::vector<int> errBetween;
  int gapErr = 0;
  int last = -1;
  auto closeGap = [&](int upto) { missingBetween.push_back(upto - last - 1); errBetween.push_back(gapErr); gapErr = 0; };
  int firstErrNextTok = -1; bool sawErr = false;
  for (auto &l : lv) {
    if (l.err) { r.push_back(g.errT); attrOf.push_back(-1); nErr++; gapErr++; sawErr = true; firstErrNextTok = -2; continue; }
    long idx = surv[si++];
    if (idx <= prev || idx < 0 || idx >= n) { rc.why = "TERM leaves are not an increasing subsequence of the input tokens"; return rc; }
    if (g.tcode[w[idx]] != l.code) { rc.why = "TERM leaf code differs from the code of the token it is attributed to"; return rc; }
    closeGap((int)idx);
    if (firstErrNextTok == -2) firstErrNextTok = (int)idx;
    last = (int)idx;
    prev = idx;
    r.push_back(w[idx]); attrOf.push_back((int)idx);
  }
  closeGap(n);
  if (firstErrNextTok == -2) firstErrNextTok = n;
  if (rootIsNil && lv.empty() && ag.implicitRule) { // total loss through the implicit rule  $S : error $eof  (no translation)
    r = {g.errT}; attrOf = {-1}; nErr = 1; missingBetween = {n}; errBetween = {1}; firstErrNextTok = n; sawErr = true;
  }
  long missing = 0;
  for (size_t k = 0; k < missingBetween.size(); k++) {
    missing += missingBetween[k];
    if (missingBetween[k] > 0 && errBetween[k] == 0) { rc.why = "tokens are missing from the tree where no `error' stands for them"; return rc; }
  }
  if (missing != reportedTotal) { rc.why = "the tree lacks " + std::to_string(missing) + " input tokens but the callbacks reported " + std::to_string(reportedTotal) + " ignored"; return rc; }
  // the tree must be a translation of a derivation of r
  std::vector<int> rw = r; rw.push_back(ag.eofT);
  std::vector<int> at = attrOf; at.push_back(-1);
  Enum e(ag.g, rw, 20000, at);
  if (!e.sentence()) { rc.why = "the repaired input read off the leaves is not derivable (with `error' as a terminal)"; return rc; }
  const Enum::VT &tv = e.symEnum(ag.g.start, 0, rw.size());
  if (e.overflow) { rc.ok = true; rc.why = "enumeration-cap"; return rc; }
  bool found = false;
  for (auto &x : tv) if (x.s == t) { found = true; break; }
  if (!found) { rc.why = "the tree is not a translation of any derivation of the repaired input"; return rc; }
  rc.ok = true;
  if (nErr == 1) {
    rc.singleSegment = true;
    // the single ERR stands for the tokens missing in its gap (all missing tokens are there, checked above)
    for (size_t k = 0; k < missingBetween.size(); k++)
      if (errBetween[k] == 1) {
        // gap k lies before the k-th surviving token
        int b = firstErrNextTok;
        rc.segB = b; rc.segA = b - missingBetween[k];
      }
  }
  (void)sawErr; (void)agi;
  return rc;
}

static Case genC07(Choices &c, int tier) {
  Case cs = genRecCase(c, tier, "C07", 70, true, 3, false);
  cs.par["fullyield"] = 1;
  return cs;
}
static long refMinRecovery(const Aug &ag, const Info &agi, const Gram &g, const std::vector<int> &w, int e, int rm, int *nSucc, bool *needBack, bool *needSkip);

static Verdict runC07(const Case &cs) {
  Verdict v; RecCtx x;
  if (!prep(cs, x, v)) return v;
  Aug ag = augment(x.g);
  Info agi = analyse(ag.g);
  bool errInit = !ag.implicitRule;
  int match = (int)cs.P("match", 3);
  for (auto &codes : cs.inputs) {
    std::vector<int> w;
    if (!toIdx(x.g, codes, w)) { v.st = V_DISCARD; return v; }
    int n = w.size();
    int re = refParse(x.g, x.in, w);
    bool sent = re < 0;
    v.labels.insert(sent ? "in:sentence" : "in:non-sentence");
    for (int la = 0; la < 3; la++) for (int one = 0; one < 2; one++) {
      Binding *b = freshDefined(cs, v);
      if (!b) return v;
      Conf cf; cf.la = la; cf.one = one; cf.rec = 1; cf.match = match;
      ParseOpts po; po.den_limit = 300;
      yaep_verif.rec_limit = REC_LIMIT;
      Outcome o = runParse(*b, codes, cf, po);
      v.parses++;
      std::string where = " [" + cf.str() + " input=" + inputStr(codes) + " sentence=" + std::to_string(sent) + "] got " + o.str();
      if (o.exploded()) { v.labels.insert(o.explosionLabel()); b->destroy(); delete b; continue; }
      if (o.rc != 0) { v.fail("yaep_parse returned " + std::to_string(o.rc) + " with recovery on" + where); return v; }
      if (sent != o.errs.empty()) { v.fail("syntax_error calls do not match the verdict (at least one call iff not a sentence)" + where); return v; }
      if (!o.root) {
        // no recovery exists when the start symbol has an `error'-initial rule (no implicit rule covers total loss)
        bool cls = errInit && !sent && !o.errs.empty() && o.errs.back().s == -1 && o.errs.back().r == -1;
        if (cls && kfListed("KF-C07-no-recovery-without-implicit-rule")) {
          v.known = "KF-C07-no-recovery-without-implicit-rule"; if (v.st == V_PASS) v.st = V_KNOWN;
          v.labels.insert("attributed:KF-C07-no-recovery-without-implicit-rule");
          b->destroy(); delete b; continue;
        }
        v.fail("recovery on: NULL root" + where); return v;
      }
      if (!o.tree.ok) { v.fail("malformed tree after recovery: " + o.tree.problem + where); return v; }
      if (sent) { if (o.tree.has_err) { v.fail("ERROR node in the tree of a sentence" + where); return v; } b->destroy(); delete b; continue; }
      if (o.tree.overflow) { v.labels.insert("discard:denotation-cap"); b->destroy(); delete b; continue; }
      long total = 0;
      for (auto &e : o.errs) total += e.r - e.s;
      bool rootNil = o.tree.den.size() == 1 && o.tree.den.begin()->s == "nil";
      for (auto &t : o.tree.den) {
        std::vector<Leaf> lv = leavesOf(t.s);
        std::vector<long> surv;
        for (auto &l : lv) if (!l.err) surv.push_back(l.attr);
        RepairCheck rc = checkRepair(ag, agi, x.g, w, t.s, lv, surv, total, rootNil);
        if (!rc.ok) {
          // F22: TERM nodes created after a recovery take the attribute at the parser-list index, i.e. at their
          // position in the REPAIRED input.  Accept exactly that misalignment as the listed finding.
          bool predicted = true; size_t pos = 0;
          for (auto &l : lv) { if (!l.err && l.attr != (long)pos) predicted = false; pos++; }
          bool explained = false;
          if (predicted && !lv.empty()) {
            // search an order preserving embedding of the TERM leaves into the input that explains the tree
            std::vector<int> tl;
            for (size_t k = 0; k < lv.size(); k++) if (!lv[k].err) tl.push_back(k);
            std::vector<long> emb(tl.size());
            std::function<bool(size_t, int)> rec = [&](size_t k, int from) -> bool {
              if (k == tl.size()) {
                std::string t2 = withAttrs(t.s, emb);
                return checkRepair(ag, agi, x.g, w, t2, lv, emb, total, false).ok;
              }
              for (int p = from; p < n; p++)
                if (x.g.tcode[w[p]] == lv[tl[k]].code) { emb[k] = p; if (rec(k + 1, p + 1)) return true; }
              return false;
            };
            explained = rec(0, 0);
          }
          if (explained && kfListed("KF-C07-term-attr-misaligned-after-recovery")) {
            v.known = "KF-C07-term-attr-misaligned-after-recovery"; if (v.st == V_PASS) v.st = V_KNOWN;
            v.labels.insert("attributed:KF-C07-term-attr-misaligned-after-recovery");
            continue;
          }
          v.fail("recovery: " + rc.why + (explained ? " (explained by the F22 attribute misalignment, not listed)" : "") + " tree=" + t.s + where);
          return v;
        }
        if (rc.why == "enumeration-cap") { v.labels.insert("discard:enumeration-cap"); continue; }
        if (o.errs.size() == 1 && rc.singleSegment && o.tree.den.size() == 1) {
          if (o.errs[0].s != rc.segA || o.errs[0].r != rc.segB) {
            v.fail("single callback, single `error': reported range [" + std::to_string(o.errs[0].s) + "," + std::to_string(o.errs[0].r) + ") is not the replaced segment [" +
                   std::to_string(rc.segA) + "," + std::to_string(rc.segB) + ") tree=" + t.s + where);
            return v;
          }
          v.labels.insert("r:range-checked");
        }
      }
      bool nt = o.errs.size() >= 2;
      for (int k = 0; k < o.hook.n_rec && k < YAEP_VERIF_MAX_REC; k++) {
        if (o.hook.rec[k].behind > 0) { nt = true; v.labels.insert("r:dropped-behind-error"); }
        if (o.hook.rec[k].ahead > 0) { nt = true; v.labels.insert("r:skipped-ahead"); }
        if (o.hook.rec[k].n_back_advances > 0) v.labels.insert("r:back-frontier-advanced");
      }
      if (o.errs.size() >= 2) v.labels.insert("r:several-callbacks");
      if (rootNil) v.labels.insert("r:total-loss");
      if (nt) v.nontrivial = true;
      b->destroy(); delete b;
    }
  }
  return v;
}

// minimal cost over all simple recoveries for the first error at token e (reference)
static long refMinRecovery(const Aug &ag, const Info &agi, const Gram &g, const std::vector<int> &w, int e, int rm, int *nSucc, bool *needBack, bool *needSkip) {
  int n = w.size();
  std::vector<int> aw = w; aw.push_back(ag.eofT);
  Chart ch;
  startset(ag.g, agi, ch, ag.g.start);
  for (int k = 0; k < e; k++) if (!shiftset(ag.g, agi, ch, k, aw[k])) return -1; // cannot happen: e is the first error
  long best = LONG_MAX; int succ = 0; int bp = -1, bq = -1;
  std::set<long> costs;
  for (int p = 0; p <= e; p++) {
    bool has = false;
    for (auto &it : ch.S[p]) { const Rule &ru = ag.g.rules[it.rule]; if (it.dot < (int)ru.rhs.size() && ru.rhs[it.dot] == g.errT) has = true; }
    if (!has) continue;
    Chart c2; c2.S.assign(ch.S.begin(), ch.S.begin() + p + 1);
    if (!shiftset(ag.g, agi, c2, p, g.errT)) continue;
    for (int q = e; q <= n; q++) {
      Chart c3 = c2;
      int m = 0, pos = p + 1, t = q;
      while (t <= n && m < rm) { if (!shiftset(ag.g, agi, c3, pos, aw[t])) break; pos++; t++; m++; }
      bool ok = m >= rm || t == n + 1;
      if (ok) { long cost = (e - p) + (q - e); succ++; costs.insert(cost); if (cost < best) { best = cost; bp = p; bq = q; } }
    }
  }
  if (nSucc) *nSucc = (int)costs.size();
  if (needBack) *needBack = bp >= 0 && bp < e;
  if (needSkip) *needSkip = bq > e;
  return best == LONG_MAX ? -1 : best;
}

static Case genC08(Choices &c, int tier) { return genRecCase(c, tier, "C08", 100, true, 3, false); }
static Verdict runC08(const Case &cs) {
  Verdict v; RecCtx x;
  if (!prep(cs, x, v)) return v;
  if (!v.labels.count("g:error-rules")) { v.st = V_DISCARD; v.labels.insert("discard:no-error-rule"); return v; }
  Aug ag = augment(x.g);
  Info agi = analyse(ag.g);
  int match = (int)cs.P("match", 3);
  for (auto &codes : cs.inputs) {
    std::vector<int> w;
    if (!toIdx(x.g, codes, w)) { v.st = V_DISCARD; return v; }
    int re = refParse(x.g, x.in, w);
    if (re < 0) { v.labels.insert("in:sentence(skipped)"); continue; }
    int nSucc = 0; bool nb = false, ns = false;
    long best = refMinRecovery(ag, agi, x.g, w, re, match, &nSucc, &nb, &ns);
    if (best < 0) { v.labels.insert(ag.implicitRule ? "REFERENCE-PROBLEM:no-simple-recovery" : "excluded:no-simple-recovery(error-initial start rule)"); continue; }
    for (int la = 0; la < 3; la++) {
      Binding *b = freshDefined(cs, v);
      if (!b) return v;
      Conf cf; cf.la = la; cf.one = 1; cf.rec = 1; cf.match = match;
      ParseOpts po; po.analyse_tree = false;
      yaep_verif.rec_limit = REC_LIMIT;
      Outcome o = runParse(*b, codes, cf, po);
      v.parses++;
      std::string where = " [" + cf.str() + " input=" + inputStr(codes) + " first error token=" + std::to_string(re) + " reference minimum=" + std::to_string(best) + "] got " + o.str();
      if (o.exploded()) { v.labels.insert(o.explosionLabel()); b->destroy(); delete b; continue; }
      if (o.rc != 0 || o.errs.empty()) { v.fail("recovery on: rc != 0 or no callback for a non-sentence" + where); return v; }
      if (!o.root) { v.labels.insert("no-recovery(NULL root; judged by C07)"); b->destroy(); delete b; continue; }
      long got = o.errs[0].r - o.errs[0].s;
      if (got > best) { v.fail("first recovery ignored " + std::to_string(got) + " tokens although a simple recovery of cost " + std::to_string(best) + " exists" + where); return v; }
      if (got < best) v.labels.insert("m:cheaper-than-any-simple-recovery");
      // cross reference to C07: is the reported number what was really dropped? (label only)
      if (o.hook.n_rec > 0 && o.hook.rec[0].found && o.hook.rec[0].behind + o.hook.rec[0].ahead != got) v.labels.insert("m:hook-count-differs-from-report");
      if (nSucc >= 2 && best >= 1) { v.nontrivial = true; if (nb) v.labels.insert("m:minimum-needs-back-move"); if (ns) v.labels.insert("m:minimum-needs-forward-skip"); if (nb && ns) v.labels.insert("m:minimum-needs-both"); }
      b->destroy(); delete b;
    }
  }
  return v;
}

extern const PropDef g_props_rec[] = {
    {"C06", genC06, runC06,
     "random CFG accepted under STRICT checking (reduced), with `error' rules in ~50% x 3 inputs (mostly mutated sentences) x lookahead{0,1,2} x "
     "recovery{off,on} x recovery_match 1-5; oracle = reference Earley first non-shiftable token (viable prefix), attribute identity, argument "
     "ranges and monotonicity for every callback. Non-trivial: non-sentence with >= 3 tokens whose error is not at token 0.",
     20},
    {"C07", genC07, runC07,
     "random CFG (strict or not) with `error' rules in ~70%, FULL-YIELD translations (every rule has an abstract node listing all rhs symbols in "
     "order, so the leaves of the tree are the repaired input) x 3 inputs (mostly mutated sentences) x lookahead{0,1,2} x one/all parses x "
     "recovery_match 1-5, recovery on; oracle: rc 0, tree well formed, callbacks >= 1 iff non-sentence (reference Earley), leaves = input with "
     "disjoint segments replaced by ERROR leaves, missing tokens == sum(stop-start) over callbacks, tree in the reference enumeration of the "
     "repaired input over the augmented grammar ($S : start $eof | error $eof), single callback + single ERROR => reported range == segment. "
     "Non-trivial: a recovery that dropped >= 1 token behind the error or skipped >= 1 ahead (hook H3), or >= 2 callbacks.",
     30},
    {"C08", genC08, runC08,
     "random CFG with `error' rules x non-sentences x lookahead{0,1,2} x recovery_match 1-5; oracle: tokens ignored by the first callback <= "
     "minimum over all simple recoveries (back to any set p <= e with `. error', shift error, skip to q >= e, shift min(match, rest incl. end "
     "of input) tokens) computed on the reference Earley sets of the augmented grammar. Non-trivial: >= 2 successful simple recoveries with "
     "different costs and reference minimum >= 1.",
     30},
};
extern const int g_nprops_rec = sizeof(g_props_rec) / sizeof(g_props_rec[0]);

} // namespace vf
