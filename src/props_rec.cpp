// C06-C08: syntax error reporting and error recovery.
#include "props.hpp"

namespace vf {

// ---------------------------------------------------------------- helpers shared with props_parse (duplicated on purpose: small)
static std::string inputStr(const std::vector<int> &codes) {
  std::string s = "[";
  for (int c : codes) s += std::to_string(c) + " ";
  return s + "]";
}
static bool startHasErrorInitialRule(const Gram &g) {
  for (auto &r : g.rules) if (r.lhs == g.start && !r.rhs.empty() && r.rhs[0] == g.errT) return true;
  return false;
}
static std::string errsStr(const std::vector<ErrCall> &e) { std::string s; for (auto &x : e) s += x.str(); return s; }

static Case genRecCase(Choices &c, int tier, const char *prop, int errorPct, bool fullYield, int nInputs, bool strictOnly) {
  Case cs;
  cs.prop = prop;
  GramOpts o;
  o.errorPct = errorPct;
  o.fullYield = fullYield;
  o.ambiguityBias = 5;
  if (tier) { o.maxT = 4; o.maxN = 5; o.extraRules += 2; }
  GramDef gd;
  gd.raw = genGrammar(c, o);
  gd.strict = strictOnly ? 1 : c.flip();
  if (!strictOnly && !classify(gd.raw, gd.strict).empty() && classify(gd.raw, !gd.strict).empty()) gd.strict = !gd.strict;
  cs.grams.push_back(gd);
  Gram g;
  if (!toGram(gd.raw, g) || !classify(gd.raw, gd.strict).empty()) return cs;
  std::vector<int> ml = minLen(g);
  int maxLen = tier ? 14 : 9;
  for (int k = 0; k < nInputs; k++) {
    int kind = c.chance(15) ? 0 : (c.chance(70) ? 1 : 2);
    cs.inputs.push_back(toCodes(g, genInputIdx(c, g, ml, maxLen, kind)));
  }
  cs.par["match"] = c.range(1, 5);
  return cs;
}

struct RecCtx {
  Gram g;
  Info in;
};
static bool prep(const Case &cs, RecCtx &x, Verdict &v) {
  if (cs.grams.empty()) { v.st = V_DISCARD; return false; }
  const GramDef &gd = cs.grams[0];
  if (!toGram(gd.raw, x.g) || !classify(gd.raw, gd.strict).empty()) {
    v.st = V_DISCARD; v.msg = "grammar not acceptable by the reference classifier"; v.labels.insert("discard:grammar-rejected");
    return false;
  }
  x.in = analyse(x.g);
  bool err = false;
  for (auto &r : x.g.rules) for (int s : r.rhs) if (s == x.g.errT) err = true;
  v.labels.insert(err ? "g:error-rules" : "g:no-error-rules");
  return true;
}
static Binding *freshDefined(const Case &cs, Verdict &v) {
  Binding *b = newCBinding();
  if (!b->create()) { v.fail("yaep_create_grammar returned NULL"); return nullptr; }
  int rc = defineGrammar(*b, cs.grams[0]);
  if (rc != 0) {
    v.st = V_DISCARD; v.msg = "library rejected a grammar the reference accepts: rc=" + std::to_string(rc) + " " + b->error_message();
    v.labels.insert("discard:definition-disagreement");
    return nullptr;
  }
  return b;
}

// ================================================================= C06
static Case genC06(Choices &c, int tier) { return genRecCase(c, tier, "C06", 50, false, 3, true); }
static Verdict runC06(const Case &cs) {
  Verdict v; RecCtx x;
  if (!prep(cs, x, v)) return v;
  bool errInit = startHasErrorInitialRule(x.g);
  int match = (int)cs.P("match", 3);
  for (auto &codes : cs.inputs) {
    std::vector<int> w;
    if (!toIdx(x.g, codes, w)) { v.st = V_DISCARD; return v; }
    int n = w.size();
    int re = refParse(x.g, x.in, w);
    if (re < 0) { v.labels.insert("in:sentence(skipped)"); continue; }
    if (re == n) v.labels.insert("in:error-at-eof");
    if (re == 0) v.labels.insert("in:error-at-token-0");
    if (n >= 3 && re > 0) v.nontrivial = true;
    for (int la = 0; la < 3; la++) for (int rec = 0; rec < 2; rec++) {
      if (rec && errInit) { v.labels.insert("excluded:F21-error-initial-start-rule"); continue; }
      Binding *b = freshDefined(cs, v);
      if (!b) return v;
      Conf cf; cf.la = la; cf.one = 1; cf.rec = rec; cf.match = match;
      ParseOpts po; po.analyse_tree = false;
      yaep_verif.rec_limit = 20000;
      Outcome o = runParse(*b, codes, cf, po);
      v.parses++;
      std::string where = " [" + cf.str() + " input=" + inputStr(codes) + " reference error token=" + std::to_string(re) + "] got " + o.str();
      if (o.hook.rec_explosion) { v.labels.insert("excluded:F27-recovery-explosion"); b->destroy(); delete b; continue; }
      if (o.rc != 0) { v.fail("yaep_parse returned " + std::to_string(o.rc) + where); return v; }
      if (o.errs.empty()) { v.fail("no syntax_error call for a non-sentence" + where); return v; }
      const ErrCall &f = o.errs[0];
      if (f.e != re) { v.fail("first syntax_error call does not report the first offending token" + where); return v; }
      if (f.ea != (re < n ? re : -1)) { v.fail("attribute of the error token is not that token's attribute" + where); return v; }
      if (!rec) {
        if (o.errs.size() != 1) { v.fail("recovery off: more than one syntax_error call" + where); return v; }
        if (f.s != -1 || f.r != -1 || f.sa != -1 || f.ra != -1) { v.fail("recovery off: recovery arguments are not (-1, NULL, -1, NULL)" + where); return v; }
      } else {
        int prev = -1;
        for (auto &e : o.errs) {
          if (!(0 <= e.s && e.s <= e.r && e.r <= n)) { v.fail("recovery on: not 0 <= first ignored <= first recovered <= token count" + where); return v; }
          if (!(0 <= e.e && e.e <= n)) { v.fail("recovery on: error token outside the input" + where); return v; }
          if (e.ea != (e.e < n ? e.e : -1) || e.sa != (e.s < n ? e.s : -1) || e.ra != (e.r < n ? e.r : -1)) { v.fail("recovery on: an attribute does not belong to the reported index" + where); return v; }
          if (e.e <= prev) { v.fail("recovery on: error tokens do not strictly increase" + where); return v; }
          prev = e.e;
        }
        if (o.errs.size() >= 2) v.labels.insert("r:several-callbacks");
        if (f.r - f.s > 0) v.labels.insert("r:tokens-ignored");
        if (f.s < f.e) v.labels.insert("r:ignored-behind-error");
      }
      b->destroy(); delete b;
    }
  }
  return v;
}

extern const PropDef g_props_rec[] = {
    {"C06", genC06, runC06,
     "random CFG accepted under STRICT checking (reduced), with `error' rules in ~50% x 3 inputs (mostly mutated sentences) x lookahead{0,1,2} x "
     "recovery{off,on} x recovery_match 1-5; oracle = reference Earley first non-shiftable token (viable prefix), attribute identity, argument "
     "ranges and monotonicity for every callback. Non-trivial: non-sentence with >= 3 tokens whose error is not at token 0.",
     20},
};
extern const int g_nprops_rec = sizeof(g_props_rec) / sizeof(g_props_rec[0]);

} // namespace vf
