// libFuzzer target: arbitrary terminals / rules through the callbacks, arbitrary setter values, arbitrary token codes.
#include "fuzz_common.hpp"
using namespace vf;
static const char *T = "fuzz_api";

static std::string pickName(FuzzedDataProvider &f, bool forTerm) {
  static const char *pool[] = {"a", "b", "c", "A", "B", "C", "S", "error", "$S", "$eof", "", " ", "x y", "'a'", "#", "TERM", "n0", "%s%s%n", "\xff\xfe"};
  int k = f.ConsumeIntegralInRange<int>(0, 24);
  if (k < 19) return pool[k];
  if (k == 19) return std::string(300, forTerm ? 't' : 'N');                       // 300-character names
  if (k == 20) return std::string(199, 'q') + std::to_string(f.ConsumeIntegralInRange<int>(0, 3));
  if (k == 21) return "T" + std::to_string(f.ConsumeIntegralInRange<int>(0, 300));   // hundreds of symbols
  if (k == 22) return "N" + std::to_string(f.ConsumeIntegralInRange<int>(0, 300));
  std::string r = f.ConsumeRandomLengthString(12);
  size_t z = r.find('\0');
  if (z != std::string::npos) r.resize(z); // names are C strings
  return r;
}

extern "C" int LLVMFuzzerTestOneInput(const uint8_t *data, size_t size) {
  fz::Counters &c = fz::cnt();
  if (++c.execs % 2048 == 0) fz::dump(T);
  g_lib.fail_at = 0; g_lib.failed = 0; g_lib.cap_hits = 0; g_lib.cap_bytes = 600L << 20;
  long base = g_lib.live_blocks;
  FuzzedDataProvider f(data, size);
  GramDef gd; gd.strict = f.ConsumeBool();
  int nt = f.ConsumeIntegralInRange<int>(0, 12);
  for (int i = 0; i < nt; i++) {
    int cm = f.ConsumeIntegralInRange<int>(0, 9);
    int code = cm < 5 ? 'a' + i : cm == 5 ? i : cm == 6 ? 5 + i * 20011 : cm == 7 ? f.ConsumeIntegralInRange<int>(-3, 300) : cm == 8 ? INT32_MAX - i : f.ConsumeIntegral<int>();
    gd.raw.terms.push_back({pickName(f, true), code});
  }
  int nr = f.ConsumeIntegralInRange<int>(0, 10);
  for (int i = 0; i < nr; i++) {
    RawRule r;
    r.lhs = pickName(f, false);
    int len = f.ConsumeIntegralInRange<int>(0, 6);          // rhs length <= 64 is the stated limit; small here
    if (f.ConsumeIntegralInRange<int>(0, 40) == 0) len = 64;
    for (int k = 0; k < len; k++) r.rhs.push_back(pickName(f, f.ConsumeBool()));
    r.has_anode = f.ConsumeBool();
    r.anode = pickName(f, false);
    r.cost = f.ConsumeIntegralInRange<int>(-2, 1000);
    if (f.ConsumeIntegralInRange<int>(0, 30) == 0) r.cost = f.ConsumeIntegralInRange<int>(INT32_MIN, 1000000); // stated limit: the cost of a whole tree must fit into the int cost field
    r.transl_null = f.ConsumeIntegralInRange<int>(0, 5) == 0;
    int ntr = f.ConsumeIntegralInRange<int>(0, 5);
    for (int k = 0; k < ntr; k++) { int t = f.ConsumeIntegralInRange<int>(0, 9); r.transl.push_back(t == 9 ? NILNUM : t == 8 ? f.ConsumeIntegralInRange<int>(0, INT32_MAX) : t); } // non-negative entries, terminator added by the adapter
    gd.raw.rules.push_back(r);
  }
  if (getenv("VERIF_FUZZ_PRINT")) fprintf(stderr, "strict=%d\n%s", gd.strict, rawGramText(gd).c_str());
  Binding *b = newCBinding();
  if (!b->create()) fz::violation(T, "yaep_create_grammar returned NULL");
  // all six setters with arbitrary ints (debug level stays 0: its output is not under test here)
  int la = f.ConsumeIntegral<int>(), one = f.ConsumeIntegral<int>(), cost = f.ConsumeIntegral<int>(), rec = f.ConsumeIntegral<int>();
  int match = f.ConsumeIntegralInRange<int>(1, 1000);
  if (f.ConsumeBool()) { la = la % 4; one %= 3; cost %= 3; rec %= 2; match = 1 + match % 6; }
  int rc = defineGrammar(*b, gd);
  fz::checkMessage(T, *b);
  std::set<int> D = classify(gd.raw, gd.strict);
  if (!D.count(-1)) {
    if ((rc == 0) != D.empty() && !(rc == E_NOMEM && g_lib.cap_hits)) fz::violation(T, "definition result " + std::to_string(rc) + " contradicts the reference classifier");
    if (rc != 0 && !D.count(rc) && !(rc == E_NOMEM && g_lib.cap_hits)) fz::violation(T, "definition returned code " + std::to_string(rc) + " which names a defect the grammar does not have");
  }
  int ntok = f.ConsumeIntegralInRange<int>(0, 20);
  std::vector<int> toks;
  for (int i = 0; i < ntok; i++) {
    int k = f.ConsumeIntegralInRange<int>(0, 9);
    toks.push_back(k < 6 && !gd.raw.terms.empty() ? gd.raw.terms[f.ConsumeIntegralInRange<size_t>(0, gd.raw.terms.size() - 1)].second : k < 8 ? f.ConsumeIntegralInRange<int>(0, 400) : f.ConsumeIntegral<int>());
  }
  for (int &t : toks) if (t < 0) t = -(t + 1); // a negative code would end the input: map it to a non-negative one
  Conf cf; cf.la = la; cf.one = one; cf.cost = cost; cf.rec = rec; cf.match = match; cf.freemode = f.ConsumeIntegralInRange<int>(0, 2);
  if (rc != 0) { c.def_errors++; fz::classify("def-error"); }
  else c.defined++;
  yaep_verif.rec_limit = 300000; yaep_verif.alt_limit = 100000;
  ParseOpts po; po.den_limit = 200;
  Outcome o = runParse(*b, toks, cf, po);
  fz::checkMessage(T, *b);
  if (rc != 0) { if (o.rc != E_UNDEF) fz::violation(T, "parse after a failed definition returned " + std::to_string(o.rc)); }
  else {
    c.parsed++;
    if (o.exploded()) { c.explosions++; fz::classify(o.hook.alt_explosion ? "translation-explosion" : "explosion"); }
    else if (o.rc == E_BADTOK) { c.invalid_tok++; fz::classify("invalid-token"); }
    else if (o.rc == E_NOMEM && g_lib.cap_hits) fz::classify("memory-cap");
    else if (o.rc != 0) fz::violation(T, "yaep_parse returned " + std::to_string(o.rc) + " " + o.str());
    else {
      c.parsed_ok++;
      if (o.root) c.trees++;
      if (!o.errs.empty()) c.syntax_errors++;
      if (o.root && !o.tree.ok) fz::violation(T, "malformed tree: " + o.tree.problem);
      if (o.t_bad_free) fz::violation(T, "parse_free misuse: " + o.t_bad);
      if (cf.freemode == 0 && o.root && o.t_live_after_free != 0) fz::violation(T, "yaep_free_tree left blocks unreleased");
      fz::classify(o.errs.empty() ? "parsed-sentence" : "parsed-with-errors");
    }
  }
  b->destroy();
  delete b;
  if (g_lib.live_blocks != base && g_lib.cap_hits == 0 && !yaep_verif.rec_explosion && !yaep_verif.alt_explosion) fz::violation(T, "library holds " + std::to_string(g_lib.live_blocks - base) + " blocks after yaep_free_grammar");
  if (g_lib.live_blocks != base) { g_lib.live_blocks = base; g_lib.live_bytes = 0; }
  return 0;
}
