// libFuzzer target: arbitrary NUL-terminated description text -> yaep_parse_grammar -> parse of fuzzer-chosen tokens.
#include "fuzz_common.hpp"
using namespace vf;
static const char *T = "fuzz_desc";

extern "C" int LLVMFuzzerTestOneInput(const uint8_t *data, size_t size) {
  fz::Counters &c = fz::cnt();
  if (++c.execs % 2048 == 0) fz::dump(T);
  // nothing may leak between iterations: fresh object, fresh allocator state
  g_lib.fail_at = 0; g_lib.failed = 0; g_lib.cap_hits = 0; g_lib.cap_bytes = 600L << 20;
  long base = g_lib.live_blocks;
  FuzzedDataProvider fdp(data, size);
  int strict = fdp.ConsumeBool();
  Conf cf;
  cf.la = fdp.ConsumeIntegralInRange<int>(-1, 3); cf.one = fdp.ConsumeIntegralInRange<int>(-1, 2); cf.cost = fdp.ConsumeIntegralInRange<int>(-1, 2);
  cf.rec = fdp.ConsumeBool(); cf.match = fdp.ConsumeIntegralInRange<int>(1, 6); cf.freemode = fdp.ConsumeIntegralInRange<int>(0, 2);
  int ntok = fdp.ConsumeIntegralInRange<int>(0, 24);
  std::vector<int> toks;
  for (int i = 0; i < ntok; i++) {
    uint8_t b = fdp.ConsumeIntegral<uint8_t>();
    int code = b < 128 ? b : b < 250 ? 256 + (b - 128) : b == 250 ? INT32_MAX : b == 251 ? 1000000 : (int)fdp.ConsumeIntegralInRange<int>(0, 70000);
    toks.push_back(code);
  }
  GramDef gd; gd.use_text = true; gd.strict = strict;
  gd.text = fdp.ConsumeRemainingBytesAsString();
  size_t z = gd.text.find('\0');
  if (z != std::string::npos) gd.text.resize(z); // API precondition: a NUL-terminated string
  Binding *b = newCBinding();
  if (!b->create()) fz::violation(T, "yaep_create_grammar returned NULL");
  int rc = defineGrammar(*b, gd); // exact-size heap copy, freed right after the call
  fz::checkMessage(T, *b);
  if (rc != 0) {
    c.def_errors++;
    if (rc < E_SYNTAX || rc > E_LOOP) { if (!(rc == E_NOMEM && g_lib.cap_hits)) fz::violation(T, "yaep_parse_grammar returned undocumented code " + std::to_string(rc)); }
    if (b->error_code() != rc) fz::violation(T, "error code not recorded");
    if (rc == E_SYNTAX) {
      long lines = 1; for (char ch : gd.text) if (ch == '\n') lines++;
      long ln = -1;
      if (sscanf(b->error_message(), "description syntax error on ln %ld", &ln) != 1 || ln < 1 || ln > lines) fz::violation(T, std::string("syntax error without a line number inside the text: '") + b->error_message() + "'");
    }
    fz::classify("def-error");
  } else {
    c.defined++;
    yaep_verif.rec_limit = 300000; yaep_verif.alt_limit = 100000;
    ParseOpts po; po.den_limit = 200;
    Outcome o = runParse(*b, toks, cf, po);
    c.parsed++;
    fz::checkMessage(T, *b);
    if (o.exploded()) { c.explosions++; fz::classify(o.hook.alt_explosion ? "translation-explosion" : "explosion"); }
    else if (o.rc == E_BADTOK) { c.invalid_tok++; fz::classify("invalid-token"); }
    else if (o.rc == E_NOMEM && g_lib.cap_hits) fz::classify("memory-cap");
    else if (o.rc != 0) fz::violation(T, "yaep_parse returned " + std::to_string(o.rc) + " " + o.str());
    else {
      c.parsed_ok++;
      if (o.root) c.trees++;
      if (!o.errs.empty()) c.syntax_errors++;
      if (o.root && !o.tree.ok) fz::violation(T, "malformed tree: " + o.tree.problem);
      if (o.t_bad_free) fz::violation(T, "parse_free misuse: " + o.t_bad);
      if (!cf.rec && !o.root && o.errs.size() != 1) fz::violation(T, "recovery off, no tree, but not exactly one syntax_error call");
      if (cf.freemode == 0 && o.root && o.t_live_after_free != 0) fz::violation(T, "yaep_free_tree left blocks unreleased");
      fz::classify(o.errs.empty() ? "parsed-sentence" : "parsed-with-errors");
    }
  }
  b->destroy();
  delete b;
  if (g_lib.live_blocks != base && g_lib.cap_hits == 0 && !yaep_verif.rec_explosion && !yaep_verif.alt_explosion) fz::violation(T, "library holds " + std::to_string(g_lib.live_blocks - base) + " blocks after yaep_free_grammar");
  // memory released abnormally (cap / explosion exits leak by design): forget it
  if (g_lib.live_blocks != base) { g_lib.live_blocks = base; g_lib.live_bytes = 0; }
  return 0;
}
