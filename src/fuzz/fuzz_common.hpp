// shared by the libFuzzer targets: counters, oracle helpers
#pragma once
#include <fuzzer/FuzzedDataProvider.h>
#include "../yrun.hpp"
#include <cstdio>
#include <cstdlib>
#include <string>

namespace fz {
struct Counters { long execs = 0, defined = 0, parsed = 0, parsed_ok = 0, trees = 0, syntax_errors = 0, explosions = 0, invalid_tok = 0, def_errors = 0; };
inline Counters &cnt() { static Counters c; return c; }
inline void dump(const char *target) {
  const char *p = getenv("VERIF_FUZZ_STATS");
  if (!p) return;
  FILE *f = fopen(p, "w");
  if (!f) return;
  Counters &c = cnt();
  fprintf(f, "{\"target\":\"%s\",\"execs\":%ld,\"defined\":%ld,\"parsed\":%ld,\"parsed_ok\":%ld,\"trees\":%ld,\"syntax_errors\":%ld,\"explosions\":%ld,\"invalid_tok\":%ld,\"def_errors\":%ld}\n",
          target, c.execs, c.defined, c.parsed, c.parsed_ok, c.trees, c.syntax_errors, c.explosions, c.invalid_tok, c.def_errors);
  fclose(f);
}
[[noreturn]] inline void violation(const char *target, const std::string &why) {
  fprintf(stderr, "\nVERIF-ORACLE-VIOLATION (%s): %s\n", target, why.c_str());
  dump(target);
  __builtin_trap();
}
inline void classify(const char *stage) {
  const char *p = getenv("VERIF_FUZZ_CLASSIFY");
  if (!p) return;
  FILE *f = fopen(p, "a");
  if (f) { fprintf(f, "%s\n", stage); fclose(f); }
}
// message must be a NUL terminated string that fits the 201-byte buffer
inline void checkMessage(const char *target, vf::Binding &b) {
  const char *m = b.error_message();
  if (!m) violation(target, "yaep_error_message returned NULL");
  size_t n = strnlen(m, 202);
  if (n > 200) violation(target, "error message is not NUL-terminated within its 201-byte buffer");
}
} // namespace fz
