// Reference model for yaep (written from the manual and the textbook; shares no
// code or data-structure idea with yaep.c: no set cores, no relative
// distances, no lookahead, no caching).
//
//   RawGram   what a caller hands to yaep_read_grammar (names, codes, raw
//             translation arrays) -- may be defective
//   Gram      indexed, lexically well-formed grammar + the reserved terminal
//             `error' + reference analyses
//   Ref*      Earley recogniser, CYK-style chart, derivation enumerator with
//             the documented syntax-directed translation, costs
#pragma once
#include <algorithm>
#include <climits>
#include <cstdio>
#include <cstdlib>
#include <functional>
#include <map>
#include <set>
#include <sstream>
#include <string>
#include <tuple>
#include <vector>

namespace vf {

static const int NILNUM = INT_MAX; // YAEP_NIL_TRANSLATION_NUMBER

struct RawRule {
  std::string lhs;
  std::vector<std::string> rhs;
  bool has_anode = false;
  std::string anode;
  int cost = 0;
  bool transl_null = false;     // pass a NULL translation array
  std::vector<int> transl;      // raw entries (>=0; NILNUM = nil); terminator added by adapter
};
struct RawGram {
  std::vector<std::pair<std::string, int>> terms;
  std::vector<RawRule> rules;
};

// ---------------------------------------------------------------- indexed grammar
struct Rule {
  int lhs;
  std::vector<int> rhs;
  bool has_anode;
  std::string anode;
  int cost;
  std::vector<int> transl; // rhs index or -1 for nil
};
struct Gram {
  // symbols: 0..nT-1 terminals; terminal errT is the reserved `error'
  // (always present, never declared); nT..nT+nN-1 nonterminals.
  int nT = 0, nN = 0, errT = -1;
  std::vector<int> tcode;
  std::vector<std::string> tname, nname;
  std::vector<Rule> rules;
  int start = -1;
  bool isT(int s) const { return s < nT; }
  std::string sname(int s) const { return isT(s) ? tname[s] : nname[s - nT]; }
  int symByName(const std::string &n) const {
    for (int t = 0; t < nT; t++) if (tname[t] == n) return t;
    for (int a = 0; a < nN; a++) if (nname[a] == n) return nT + a;
    return -1;
  }
  int termByCode(int code) const {
    for (int t = 0; t < nT; t++) if (t != errT && tcode[t] == code) return t;
    return -1;
  }
};

// Lexical conversion.  Returns false if the raw grammar has an intake-level
// defect (then only classify() is meaningful).
inline bool toGram(const RawGram &rg, Gram &g) {
  g = Gram();
  std::map<std::string, int> sym;
  std::set<int> codes;
  for (auto &t : rg.terms) {
    if (t.second < 0 || sym.count(t.first) || codes.count(t.second)) return false;
    if (t.first == "error" || t.first == "$S" || t.first == "$eof") return false;
    sym[t.first] = g.nT++;
    codes.insert(t.second);
    g.tname.push_back(t.first);
    g.tcode.push_back(t.second);
  }
  g.errT = g.nT++;
  g.tname.push_back("error");
  g.tcode.push_back(-2);
  sym["error"] = g.errT;
  if (rg.rules.empty()) return false;
  // first pass: nonterminal names in order of first appearance (lhs first, then rhs)
  std::vector<std::string> nn;
  auto note = [&](const std::string &s) {
    if (!sym.count(s)) { sym[s] = -1 - (int)nn.size(); nn.push_back(s); }
  };
  for (auto &r : rg.rules) {
    if (r.lhs == "$S" || r.lhs == "$eof") return false;
    note(r.lhs);
    for (auto &s : r.rhs) { if (s == "$S" || s == "$eof") return false; note(s); }
  }
  g.nN = nn.size();
  g.nname = nn;
  auto idx = [&](const std::string &s) { int v = sym[s]; return v >= 0 ? v : g.nT + (-1 - v); };
  for (auto &r : rg.rules) {
    Rule q;
    q.lhs = idx(r.lhs);
    if (g.isT(q.lhs)) return false;
    for (auto &s : r.rhs) q.rhs.push_back(idx(s));
    q.has_anode = r.has_anode;
    q.anode = r.anode;
    q.cost = r.has_anode ? r.cost : 0;
    if (r.has_anode && r.cost < 0) return false;
    std::set<int> used;
    if (!r.transl_null)
      for (int t : r.transl) {
        if (t < 0) break;
        if (t == NILNUM) { q.transl.push_back(-1); continue; }
        if (t >= (int)r.rhs.size() || used.count(t)) return false;
        used.insert(t);
        q.transl.push_back(t);
      }
    if (!r.has_anode && q.transl.size() > 1) return false;
    g.rules.push_back(q);
  }
  g.start = g.rules[0].lhs;
  return true;
}

// ---------------------------------------------------------------- analyses
struct Info {
  std::vector<char> nullable, productive, reachable, loop;
  bool anyLoop = false, anyUnprod = false, anyUnreach = false;
};
inline Info analyse(const Gram &g) {
  Info r;
  int S = g.nT + g.nN;
  r.nullable.assign(S, 0); r.productive.assign(S, 0); r.reachable.assign(S, 0); r.loop.assign(S, 0);
  for (int t = 0; t < g.nT; t++) r.productive[t] = 1;
  bool ch = true;
  while (ch) {
    ch = false;
    for (auto &ru : g.rules) {
      bool n = true, p = true;
      for (int s : ru.rhs) { n = n && r.nullable[s]; p = p && r.productive[s]; }
      if (n && !r.nullable[ru.lhs]) { r.nullable[ru.lhs] = 1; ch = true; }
      if (p && !r.productive[ru.lhs]) { r.productive[ru.lhs] = 1; ch = true; }
    }
  }
  r.reachable[g.start] = 1;
  ch = true;
  while (ch) {
    ch = false;
    for (auto &ru : g.rules)
      if (r.reachable[ru.lhs])
        for (int s : ru.rhs) if (!r.reachable[s]) { r.reachable[s] = 1; ch = true; }
  }
  // A => + A  iff A reaches itself in the graph A->B for rules A : x B y, x,y nullable
  std::vector<std::set<int>> u(S);
  for (auto &ru : g.rules)
    for (size_t i = 0; i < ru.rhs.size(); i++)
      if (!g.isT(ru.rhs[i])) {
        bool ok = true;
        for (size_t j = 0; j < ru.rhs.size(); j++) if (j != i && !r.nullable[ru.rhs[j]]) ok = false;
        if (ok) u[ru.lhs].insert(ru.rhs[i]);
      }
  for (int a = g.nT; a < S; a++) {
    std::set<int> seen;
    std::vector<int> st(u[a].begin(), u[a].end());
    while (!st.empty()) {
      int b = st.back(); st.pop_back();
      if (!seen.insert(b).second) continue;
      for (int c : u[b]) st.push_back(c);
    }
    if (seen.count(a)) r.loop[a] = 1;
  }
  for (int a = g.nT; a < S; a++) {
    if (r.loop[a]) r.anyLoop = true;
    if (!r.productive[a]) r.anyUnprod = true;
    if (!r.reachable[a]) r.anyUnreach = true;
  }
  return r;
}

// Error codes (yaep.h)
enum { E_NOMEM = 1, E_UNDEF = 2, E_SYNTAX = 3, E_FIXED = 4, E_REPDECL = 5, E_NEGCODE = 6, E_REPCODE = 7,
       E_NORULES = 8, E_TERMLHS = 9, E_BADTRANS = 10, E_NEGCOST = 11, E_BADNUM = 12, E_REPNUM = 13,
       E_UNACC = 14, E_NODERIV = 15, E_LOOP = 16, E_BADTOK = 17 };

// Admissible definition results for a raw grammar: empty set <=> must be accepted.
inline std::set<int> classify(const RawGram &rg, int strict) {
  std::set<int> D;
  std::set<std::string> tn;
  std::set<int> codes;
  for (auto &t : rg.terms) {
    if (t.second < 0) D.insert(E_NEGCODE);
    if (tn.count(t.first)) D.insert(E_REPDECL);
    if (t.second >= 0 && codes.count(t.second)) D.insert(E_REPCODE);
    if (t.first == "error" || t.first == "$S" || t.first == "$eof") D.insert(E_FIXED);
    tn.insert(t.first);
    if (t.second >= 0) codes.insert(t.second);
  }
  if (rg.rules.empty()) D.insert(E_NORULES);
  for (auto &r : rg.rules) {
    if (r.lhs == "$S" || r.lhs == "$eof") D.insert(E_FIXED);
    if (r.lhs == "$eof") D.insert(E_TERMLHS); // $eof is a terminal: either code names a real defect
    if (tn.count(r.lhs) || r.lhs == "error") D.insert(E_TERMLHS);
    for (auto &s : r.rhs) if (s == "$S" || s == "$eof") D.insert(E_FIXED);
    size_t n = 0;
    std::set<int> used;
    if (!r.transl_null) {
      for (int t : r.transl) {
        if (t < 0) break;
        n++;
        if (t == NILNUM) continue;
        if (t >= (int)r.rhs.size()) D.insert(E_BADNUM);
        else if (!used.insert(t).second) D.insert(E_REPNUM);
      }
    }
    if (!r.has_anode && n > 1) D.insert(E_BADTRANS);
    if (r.has_anode && r.cost < 0) D.insert(E_NEGCOST);
  }
  if (!D.empty()) return D;
  Gram g;
  if (!toGram(rg, g)) { D.insert(-1); return D; } // cannot happen: toGram and the list above agree
  Info in = analyse(g);
  if (in.anyLoop) D.insert(E_LOOP);
  if (strict) {
    if (in.anyUnprod) D.insert(E_NODERIV);
    if (in.anyUnreach) D.insert(E_UNACC);
  } else if (!in.productive[g.start]) D.insert(E_NODERIV);
  return D;
}

// ---------------------------------------------------------------- Earley recogniser
struct Item {
  int rule, dot, org;
  bool operator<(const Item &o) const { return std::tie(rule, dot, org) < std::tie(o.rule, o.dot, o.org); }
};
struct Chart { std::vector<std::set<Item>> S; };

inline void closure(const Gram &g, const Info &ri, Chart &c, int k) {
  std::vector<Item> wl(c.S[k].begin(), c.S[k].end());
  auto add = [&](Item it) { if (c.S[k].insert(it).second) wl.push_back(it); };
  while (!wl.empty()) {
    Item it = wl.back(); wl.pop_back();
    const Rule &ru = g.rules[it.rule];
    if (it.dot < (int)ru.rhs.size()) {
      int s = ru.rhs[it.dot];
      if (!g.isT(s)) {
        for (size_t r = 0; r < g.rules.size(); r++) if (g.rules[r].lhs == s) add({(int)r, 0, k});
        if (ri.nullable[s]) add({it.rule, it.dot + 1, it.org});
      }
    } else {
      std::vector<Item> par(c.S[it.org].begin(), c.S[it.org].end());
      for (auto &p : par) {
        const Rule &pr = g.rules[p.rule];
        if (p.dot < (int)pr.rhs.size() && pr.rhs[p.dot] == ru.lhs) add({p.rule, p.dot + 1, p.org});
      }
    }
  }
}
// scan terminal `term' from set k into set k+1 (which is overwritten); false if nothing shifts
inline bool shiftset(const Gram &g, const Info &ri, Chart &c, int k, int term) {
  if ((int)c.S.size() < k + 2) c.S.resize(k + 2);
  c.S[k + 1].clear();
  for (auto &it : c.S[k]) {
    const Rule &ru = g.rules[it.rule];
    if (it.dot < (int)ru.rhs.size() && ru.rhs[it.dot] == term) c.S[k + 1].insert({it.rule, it.dot + 1, it.org});
  }
  if (c.S[k + 1].empty()) return false;
  closure(g, ri, c, k + 1);
  return true;
}
inline void startset(const Gram &g, const Info &ri, Chart &c, int startSym) {
  c.S.assign(1, {});
  for (size_t r = 0; r < g.rules.size(); r++) if (g.rules[r].lhs == startSym) c.S[0].insert({(int)r, 0, 0});
  closure(g, ri, c, 0);
}
// w: terminal indexes.  Returns -1 for a sentence, else the index of the first
// token that cannot be shifted (w.size() if only end of input is refused).
inline int refParse(const Gram &g, const Info &ri, const std::vector<int> &w, Chart *out = nullptr) {
  Chart c;
  startset(g, ri, c, g.start);
  int n = w.size(), res = -1;
  for (int k = 0; k < n; k++)
    if (!shiftset(g, ri, c, k, w[k])) { res = k; break; }
  if (res < 0) {
    bool acc = false;
    for (auto &it : c.S[n])
      if (it.org == 0 && g.rules[it.rule].lhs == g.start && it.dot == (int)g.rules[it.rule].rhs.size()) acc = true;
    if (!acc) res = n;
  }
  if (out) *out = c;
  return res;
}

// ---------------------------------------------------------------- chart + enumerator
struct Tr {            // one translation with its cost
  std::string s;
  long cost;
  bool operator<(const Tr &o) const { return std::tie(s, cost) < std::tie(o.s, o.cost); }
  bool operator==(const Tr &o) const { return s == o.s && cost == o.cost; }
};
struct Enum {
  const Gram &g;
  const std::vector<int> &w;
  long limit;
  bool overflow = false;
  std::vector<int> attrOf; // optional: attribute index printed for the token at position i (default: i)
  std::vector<std::vector<std::vector<char>>> D; // D[sym][i][j]: sym derives w[i..j)
  Enum(const Gram &g_, const std::vector<int> &w_, long lim) : g(g_), w(w_), limit(lim) { build(); }
  Enum(const Gram &g_, const std::vector<int> &w_, long lim, const std::vector<int> &attrs) : g(g_), w(w_), limit(lim), attrOf(attrs) { build(); }
  bool seqDer(const std::vector<int> &rhs, size_t p, int i, int j) {
    if (p == rhs.size()) return i == j;
    int s = rhs[p];
    if (g.isT(s)) return i < j && w[i] == s && seqDer(rhs, p + 1, i + 1, j);
    for (int k = i; k <= j; k++) if (D[s][i][k] && seqDer(rhs, p + 1, k, j)) return true;
    return false;
  }
  void build() {
    int n = w.size(), S = g.nT + g.nN;
    D.assign(S, std::vector<std::vector<char>>(n + 1, std::vector<char>(n + 1, 0)));
    bool ch = true;
    while (ch) {
      ch = false;
      for (auto &ru : g.rules)
        for (int i = 0; i <= n; i++)
          for (int j = i; j <= n; j++)
            if (!D[ru.lhs][i][j] && seqDer(ru.rhs, 0, i, j)) { D[ru.lhs][i][j] = 1; ch = true; }
    }
  }
  bool sentence() { return D[g.start][0][w.size()]; }
  typedef std::vector<Tr> VT; // one entry per derivation (multiset)
  std::map<std::tuple<int, int, int>, VT> memo;
  std::string termStr(int t, int pos) {
    if (t == g.errT) return "ERR";
    return "t" + std::to_string(g.tcode[t]) + "@" + std::to_string(attrOf.empty() ? pos : attrOf[pos]);
  }
  void seqEnum(const Rule &ru, size_t p, int i, int j, std::vector<Tr> &cur, std::vector<std::vector<Tr>> &out) {
    if (overflow) return;
    if (p == ru.rhs.size()) {
      if (i == j) { out.push_back(cur); if ((long)out.size() > limit) overflow = true; }
      return;
    }
    int s = ru.rhs[p];
    if (g.isT(s)) {
      if (i < j && w[i] == s) { cur.push_back({termStr(s, i), 0}); seqEnum(ru, p + 1, i + 1, j, cur, out); cur.pop_back(); }
      return;
    }
    for (int k = i; k <= j; k++)
      if (D[s][i][k] && seqDer(ru.rhs, p + 1, k, j)) {
        const VT sub = symEnum(s, i, k);
        for (auto &t : sub) { cur.push_back(t); seqEnum(ru, p + 1, k, j, cur, out); cur.pop_back(); if (overflow) return; }
      }
  }
  const VT &symEnum(int s, int i, int j) {
    auto key = std::make_tuple(s, i, j);
    auto f = memo.find(key);
    if (f != memo.end()) return f->second;
    VT res;
    for (auto &ru : g.rules)
      if (ru.lhs == s) {
        std::vector<std::vector<Tr>> ds;
        std::vector<Tr> cur;
        seqEnum(ru, 0, i, j, cur, ds);
        for (auto &d : ds) { res.push_back(translate(ru, d)); if ((long)res.size() > limit) { overflow = true; break; } }
        if (overflow) break;
      }
    return memo[key] = res;
  }
  // The documented syntax-directed translation.
  Tr translate(const Rule &ru, const std::vector<Tr> &ch) {
    if (ru.has_anode) {
      Tr r; r.cost = ru.cost;
      r.s = ru.anode + "$" + std::to_string(ru.cost) + "(";
      for (size_t k = 0; k < ru.transl.size(); k++) {
        if (k) r.s += " ";
        if (ru.transl[k] < 0) r.s += "nil";
        else { r.s += ch[ru.transl[k]].s; r.cost += ch[ru.transl[k]].cost; }
      }
      r.s += ")";
      return r;
    }
    if (ru.transl.empty() || ru.transl[0] < 0) return {"nil", 0};
    return ch[ru.transl[0]];
  }
};

// ---------------------------------------------------------------- augmented grammar (as the manual describes it)
//   $S : start $eof            (translation of start)
//   $S : error $eof            (no translation) unless a rule of the start symbol begins with `error'
struct Aug {
  Gram g;
  int eofT = -1;
  bool implicitRule = false;
  int mapSym(const Gram &o, int s) const { return s < o.nT ? s : s + 1; }
};
inline Aug augment(const Gram &o) {
  Aug a;
  Gram &g = a.g;
  g.nT = o.nT + 1; g.nN = o.nN + 1; g.errT = o.errT;
  g.tcode = o.tcode; g.tname = o.tname; g.tcode.push_back(-1); g.tname.push_back("$eof");
  a.eofT = o.nT;
  g.nname = o.nname; g.nname.push_back("$S");
  int Sx = g.nT + o.nN;
  Rule r0; r0.lhs = Sx; r0.rhs = {a.mapSym(o, o.start), a.eofT}; r0.has_anode = false; r0.cost = 0; r0.transl = {0};
  g.rules.push_back(r0);
  bool has = false;
  for (auto ru : o.rules) {
    if (ru.lhs == o.start && !ru.rhs.empty() && ru.rhs[0] == o.errT) has = true;
    ru.lhs = a.mapSym(o, ru.lhs);
    for (int &x : ru.rhs) x = a.mapSym(o, x);
    g.rules.push_back(ru);
  }
  if (!has) {
    Rule r1; r1.lhs = Sx; r1.rhs = {o.errT, a.eofT}; r1.has_anode = false; r1.cost = 0;
    g.rules.push_back(r1);
    a.implicitRule = true;
  }
  g.start = Sx;
  return a;
}

// ---------------------------------------------------------------- printing
inline std::string ruleStr(const Gram &g, const Rule &r) {
  std::string s = g.sname(r.lhs) + " :";
  for (int x : r.rhs) s += " " + g.sname(x);
  s += " #";
  if (r.has_anode) s += " " + r.anode + "$" + std::to_string(r.cost) + " (";
  for (int t : r.transl) s += " " + (t < 0 ? std::string("-") : std::to_string(t));
  if (r.has_anode) s += " )";
  return s;
}
inline std::string gramStr(const Gram &g) {
  std::string s;
  for (auto &r : g.rules) s += ruleStr(g, r) + "\n";
  return s;
}

} // namespace vf
