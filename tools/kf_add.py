#!/usr/bin/env python3
# kf_add.py <status> <id> <property> <replay-or-> <commit-or-> <what...>   (development helper, never used by checks)
import json,sys
st,i,prop,replay,commit=sys.argv[1:6]; what=' '.join(sys.argv[6:])
p='/verif/known_findings.json'; d=json.load(open(p))
d['findings']=[f for f in d['findings'] if f['id']!=i]
e={'id':i,'status':st,'property':prop,'what':what}
if replay!='-': e['replay']=replay
if commit!='-': e['commit']=commit
d['findings'].append(e)
json.dump(d,open(p,'w'),indent=1)
