#!/bin/bash
# try_seed.sh <seed-dir> <property> [more properties...]
# development helper: confirms an independently written property-breaking change and runs the checks against it.
#  1. scratch worktree of /repo HEAD (under /var/tmp): demo passes without the patch, fails with it; baseline passes with it
#  2. apply the patch to /repo, run ./check <property> quick, undo
set -u
D=$(cd "$1" && pwd); shift
ROOT=$(cd "$(dirname "$0")/.." && pwd)
W=$(mktemp -d /var/tmp/seedtry.XXXXXX)
git -C /repo worktree add -q --detach "$W/wt" HEAD || exit 2
cleanup() { git -C /repo worktree remove --force "$W/wt" 2>/dev/null; rm -rf "$W"; }
trap cleanup EXIT
rundemo() { # the seed directory travels as <worktree>/seed and brings its own build script
  rm -rf "$W/wt/seed"; cp -r "$D" "$W/wt/seed"
  ( cd "$W/wt" && timeout 600 sh seed/run_demo.sh >/dev/null 2>&1 ); local rc=$?
  rm -rf "$W/wt/seed"; return $rc
}
rundemo; r0=$?
( cd "$W/wt" && git apply "$D/patch.diff" ) || { echo "PATCH-DOES-NOT-APPLY"; exit 2; }
rundemo; r1=$?
REPO="$W/wt" "$ROOT/tools/baseline_off.sh" > "$W/base.log" 2>&1; rb=$?
echo "demo without patch: exit $r0 (want 0); with patch: exit $r1 (want != 0); baseline with patch: $(tail -1 "$W/base.log") rc=$rb"
if [ $r0 -ne 0 ] || [ $r1 -eq 0 ] || [ $rb -ne 0 ]; then echo "SEED-NOT-CONFIRMED"; exit 1; fi
echo "SEED-CONFIRMED"
[ "${TRY_SEED_CONFIRM_ONLY:-0}" = 1 ] && exit 0
git -C /repo apply "$D/patch.diff" || { echo "cannot apply to /repo"; exit 2; }
for P in "$@"; do
  out=$("$ROOT/check" "$P" quick 2>&1); rc=$?
  echo "check $P quick: exit $rc :: $(echo "$out" | grep -E "VIOLATION|CHECK-BROKEN|BUILD-FAILED" | head -2 | tr '\n' ' ')"
  echo "$out" | grep -A1 "^VIOLATION" | head -4 | cut -c1-400
done
git -C /repo checkout -- .
