#!/bin/bash
# One-time setup after a fresh restore (offline): compile the harness objects
# and the library variants from /repo's current tree.
set -eu
cd "$(dirname "$0")/.."
tools/build_harness.sh
