#!/bin/bash
# One-time setup after a fresh restore (offline): compile the harness objects
# and the library variants from /repo's current tree.
set -eu
cd "$(dirname "$0")/.."
tools/build_harness.sh
# the fuzz targets and the build without sanitizers (memcheck tier) are needed by C12 only; building them here keeps the first C12 run short
tools/build_fuzz.sh >/dev/null
HARNESS_VARIANT=plain tools/build_harness.sh >/dev/null
