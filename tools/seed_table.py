#!/usr/bin/env python3
# seed_table.py : prints the DESIGN.md section 11 table from seeded/*/meta.json (development helper)
import json,os,glob
ROOT=os.path.dirname(os.path.dirname(os.path.abspath(__file__)))
print('| change | breaks | what it is | own check | other checks run against it |')
print('|---|---|---|---|---|')
for d in sorted(glob.glob(os.path.join(ROOT,'seeded','C*'))):
    mp=os.path.join(d,'meta.json')
    if not os.path.exists(mp): continue
    m=json.load(open(mp)); sid=os.path.basename(d); prop=m['property']
    def fmt(p):
        es=m.get('checks',{}).get(p,[])
        if not es: return 'not run'
        c=sum(1 for e in es if e['result']=='caught'); n=len(es)
        t=sorted(e['seconds'] for e in es if e['result']=='caught')
        s='caught %d/%d'%(c,n) if n>1 else ('caught' if c else 'MISSED')
        if t: s+=' (%d s)'%t[len(t)//2]
        return s
    own=fmt(prop)
    others='; '.join('%s: %s'%(p,fmt(p)) for p in sorted(m.get('checks',{})) if p!=prop) or '-'
    print('| %s | %s | %s | %s | %s |'%(sid,prop,m.get('short',m['title']),own,others))
