#!/usr/bin/env python3
# seed_table.py : prints the DESIGN.md section 11 table from seeded/*/meta.json (development helper)
import json,os,glob
ROOT=os.path.dirname(os.path.dirname(os.path.abspath(__file__)))
print('| change | breaks | what it is | own check | other checks run against it |')
print('|---|---|---|---|---|')
tot=own_caught=0
for d in sorted(glob.glob(os.path.join(ROOT,'seeded','C*'))):
    mp=os.path.join(d,'meta.json')
    if not os.path.exists(mp): continue
    m=json.load(open(mp)); sid=os.path.basename(d); prop=m['property']
    def fmt(p):
        es=[e for e in m.get('checks',{}).get(p,[]) if e['result'] in ('caught','missed')]
        fin=[e for e in es if e.get('generators')=='final']
        old=[e for e in es if e.get('generators')!='final']
        use=fin or es
        if not use: return 'not run'
        parts=[]
        for tier in ('quick','thorough'):
            te=[e for e in use if e['tier']==tier]
            if not te: continue
            c=sum(1 for e in te if e['result']=='caught'); n=len(te)
            t=sorted(e['seconds'] for e in te if e['result']=='caught')
            s=('caught %d/%d'%(c,n) if n>1 else ('caught' if c else 'MISSED'))
            if t: s+=' (%d s)'%t[len(t)//2]
            if tier=='thorough' or any(e['tier']=='thorough' for e in use): s=tier+': '+s
            parts.append(s)
        s='; '.join(parts)
        if fin and old and any(e['result']!='caught' for e in old) and all(e['result']=='caught' for e in fin): s+=' [missed before the generator changes]'
        return s
    own=fmt(prop)
    tot+=1; own_caught+= ('caught' in own and 'MISSED' not in own.split(';')[0])
    others='; '.join('%s: %s'%(p,fmt(p)) for p in sorted(m.get('checks',{})) if p!=prop) or '-'
    print('| %s | %s | %s | %s | %s |'%(sid,prop,m.get('short',m['title']).replace('|','\\|'),own,others))
import sys
print('\n%d changes; quick tier of the own check reports %d'%(tot,own_caught),file=sys.stderr)
