#!/bin/bash
# scratch_eval.sh <seed-id> <property> [workers] [cases] [tier] : builds the harness against a scratch worktree of /repo HEAD with
# seeded/<seed-id>/patch.diff applied (never touches /repo's working tree) and runs pbt workers of one property directly.
# Development helper for measuring detection rates; prints how many workers found a counterexample.
set -u
S=$1; P=$2; W=${3:-6}; N=${4:-2000}; T=${5:-quick}
ROOT=$(cd "$(dirname "$0")/.." && pwd)
WT=/var/tmp/wt-se-$S
git -C /repo worktree remove --force $WT 2>/dev/null
git -C /repo worktree add -q --detach $WT HEAD || exit 2
( cd $WT && git apply "$ROOT/seeded/$S/patch.diff" ) || exit 2
REPO=$WT PBT_NAME=pbt-$S "$ROOT/tools/build_harness.sh" >/dev/null 2>&1 || { echo build failed; exit 2; }
git -C /repo worktree remove --force $WT
O=/var/tmp/se-$S-$P; rm -rf $O; mkdir -p $O
msz=400; case $P in C14|C15|C16) msz=1500;; C09) msz=1200;; C17) msz=800;; C19) msz=600;; esac
for w in $(seq 0 $((W-1))); do
  ( "$ROOT/build/bin/pbt-$S" run --prop $P --maxsize $msz --tier $T --cases $N --seed ${VERIF_SEED:-1} --worker $w --out $O/w$w.json --replaydir $O --budget ${BUDGET:-120} >/dev/null 2>&1; echo $? > $O/rc$w ) &
done
wait
found=0; for w in $(seq 0 $((W-1))); do [ "$(cat $O/rc$w)" = 1 ] && found=$((found+1)); done
echo "seed $S vs $P: $found of $W workers found a counterexample ($N cases each)"
ls $O/*.case 2>/dev/null | head -1 | xargs -r sed -n 2p | cut -c1-300
