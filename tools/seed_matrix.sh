#!/bin/bash
# seed_matrix.sh [tier] : runs, for every archived seeded change, the check of the property it breaks (plus a few related
# checks), and records caught/missed in seeded/<id>/meta.json.  Development helper; never used by the registered checks.
T=${1:-quick}
ROOT=$(cd "$(dirname "$0")/.." && pwd)
declare -A EXTRA=( [C01]="C09 C02" [C08]="C07" [C09]="C01" [C11]="C14" [C16]="C19" [C13]="C02" [C02]="C03" [C03]="C04" [C06]="C07" [C15]="C14" )
for S in C01 C02 C03 C04 C05 C06 C07 C08 C09 C10 C11 C12 C13 C14 C15 C16 C17 C18 C19; do
  for P in $S ${EXTRA[$S]:-}; do
    line=$("$ROOT/tools/with_seed.sh" $S $T $P | head -1)
    echo "$line" | cut -c1-220
    r=$(echo "$line" | sed -n 's/.*: \(caught\|missed\|broken[^ ]*\) in \([0-9]*\)s.*/\1 \2/p')
    python3 - "$ROOT/seeded/$S/meta.json" "$P" "$T" "${VERIF_SEED:-1}" $r <<'PY'
import json,sys
p,prop,tier,seed,res,secs=sys.argv[1],sys.argv[2],sys.argv[3],sys.argv[4],sys.argv[5] if len(sys.argv)>5 else 'unknown',sys.argv[6] if len(sys.argv)>6 else '0'
d=json.load(open(p)); d.setdefault('checks',{}).setdefault(prop,[])
d['checks'][prop]=[e for e in d['checks'][prop] if not (e['tier']==tier and e['verif_seed']==int(seed))]
d['checks'][prop].append({'tier':tier,'verif_seed':int(seed),'result':res,'seconds':int(secs),'command':'git -C /repo apply seeded/%s/patch.diff; ./check %s %s; git -C /repo checkout -- .'%(d['property'],prop,tier)})
json.dump(d,open(p,'w'),indent=1)
PY
  done
done
