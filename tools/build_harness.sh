#!/bin/bash
# Compiles the harness objects (slow part: the one rapidcheck translation unit)
# into /verif/build/obj and links /verif/build/bin/pbt against the library
# objects built from /repo's current tree.  Objects are rebuilt only when a
# source or header in /verif/src changed (make-like, by content hash).
set -eu
ROOT=$(cd "$(dirname "$0")/.." && pwd)
cd "$ROOT"
LIBC=$(tools/build_lib.sh c-san)
LIBX=$(tools/build_lib.sh cxx-san)
mkdir -p build/obj build/bin
REPO=${REPO:-/repo}
HDRKEY=$(cat src/*.hpp "$LIBC/yaep.h" "$REPO"/src/allocate.h "$REPO"/src/hashtab.h "$REPO"/src/objstack.h "$REPO"/src/vlobject.h tools/build_harness.sh | sha256sum | cut -c1-12)
CXX="clang++ -std=gnu++17 -O1 -g -fsanitize=address,undefined -fno-sanitize-recover=undefined -fno-omit-frame-pointer -Wall -Wno-unused-function -Wno-sign-compare -I$LIBC -Isrc -I$REPO/src"
CC="clang -O1 -g -fsanitize=address,undefined -fno-sanitize=pointer-overflow -fno-sanitize-recover=undefined -fno-omit-frame-pointer -w -I$REPO/src"
pids=""
objs=""
for f in src/*.cpp; do
  b=$(basename "$f" .cpp)
  k=$( (cat "$f"; echo "$HDRKEY") | sha256sum | cut -c1-12)
  o="build/obj/$b-$k.o"
  objs="$objs $o"
  if [ ! -f "$o" ]; then
    rm -f build/obj/$b-*.o
    ( $CXX -c "$f" -o "$o.tmp" 2>"build/obj/$b.log" && mv "$o.tmp" "$o" ) & pids="$pids $!"
  fi
done
for f in src/*.c; do
  b=$(basename "$f" .c)
  k=$( (cat "$f"; echo "$HDRKEY") | sha256sum | cut -c1-12)
  o="build/obj/$b-$k.o"
  objs="$objs $o"
  if [ ! -f "$o" ]; then
    rm -f build/obj/$b-*.o
    ( $CC -c "$f" -o "$o.tmp" 2>"build/obj/$b.log" && mv "$o.tmp" "$o" ) & pids="$pids $!"
  fi
done
fail=0
for p in $pids; do wait $p || fail=1; done
if [ $fail = 1 ]; then cat build/obj/*.log >&2; exit 2; fi
LK=$( (echo "$objs $LIBC $LIBX") | sha256sum | cut -c1-12)
if [ ! -f "build/bin/pbt-$LK" ]; then
  find build/bin -name "pbt-*" -mmin +30 -delete 2>/dev/null || true
  clang++ -fsanitize=address,undefined -o "build/bin/pbt-$LK" $objs "$LIBC/yaepc.o" "$LIBX/yaepxx.o" -lrapidcheck 2>build/obj/link.log || { cat build/obj/link.log >&2; exit 2; }
fi
NAME=${PBT_NAME:-pbt}
ln -sf "pbt-$LK" build/bin/$NAME
echo "$ROOT/build/bin/$NAME"
