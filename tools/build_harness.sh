#!/bin/bash
# Compiles the harness objects (slow part: the one rapidcheck translation unit)
# into /verif/build/obj and links /verif/build/bin/pbt against the library
# objects built from /repo's current tree.  Objects are rebuilt only when a
# source or header in /verif/src changed (make-like, by content hash).
set -eu
ROOT=$(cd "$(dirname "$0")/.." && pwd)
cd "$ROOT"
# HARNESS_VARIANT=plain: no sanitizer anywhere (the binary runs under valgrind); objects and binary get their own names
HV=${HARNESS_VARIANT:-san}
if [ "$HV" = plain ]; then LIBC=$(tools/build_lib.sh c-plain); LIBX=$(tools/build_lib.sh cxx-plain); SANFL="-gdwarf-4"; OD=build/obj-plain
else LIBC=$(tools/build_lib.sh c-san); LIBX=$(tools/build_lib.sh cxx-san); SANFL="-fsanitize=address,undefined -fno-sanitize-recover=undefined"; OD=build/obj; fi
mkdir -p $OD build/bin
REPO=${REPO:-/repo}
HDRKEY=$( (echo "$HV"; cat src/*.hpp "$LIBC/yaep.h" "$REPO"/src/allocate.h "$REPO"/src/hashtab.h "$REPO"/src/objstack.h "$REPO"/src/vlobject.h tools/build_harness.sh) | sha256sum | cut -c1-12)
CXX="clang++ -std=gnu++17 -O1 -g $SANFL -fno-omit-frame-pointer -Wall -Wno-unused-function -Wno-sign-compare -I$LIBC -Isrc -I$REPO/src"
CC="clang -O1 -g $SANFL ${SANFL:+-fno-sanitize=pointer-overflow} -fno-omit-frame-pointer -w -I$REPO/src"
pids=""
objs=""
for f in src/*.cpp; do
  b=$(basename "$f" .cpp)
  k=$( (cat "$f"; echo "$HDRKEY") | sha256sum | cut -c1-12)
  o="$OD/$b-$k.o"
  objs="$objs $o"
  if [ ! -f "$o" ]; then
    rm -f $OD/$b-*.o
    ( $CXX -c "$f" -o "$o.tmp" 2>"$OD/$b.log" && mv "$o.tmp" "$o" ) & pids="$pids $!"
  fi
done
for f in src/*.c; do
  b=$(basename "$f" .c)
  k=$( (cat "$f"; echo "$HDRKEY") | sha256sum | cut -c1-12)
  o="$OD/$b-$k.o"
  objs="$objs $o"
  if [ ! -f "$o" ]; then
    rm -f $OD/$b-*.o
    ( $CC -c "$f" -o "$o.tmp" 2>"$OD/$b.log" && mv "$o.tmp" "$o" ) & pids="$pids $!"
  fi
done
fail=0
for p in $pids; do wait $p || fail=1; done
if [ $fail = 1 ]; then cat $OD/*.log >&2; exit 2; fi
LK=$( (echo "$objs $LIBC $LIBX") | sha256sum | cut -c1-12)
if [ ! -f "build/bin/pbt-$LK" ]; then
  find build/bin -name "pbt-*" -mmin +30 -delete 2>/dev/null || true
  clang++ $SANFL -o "build/bin/pbt-$LK" $objs "$LIBC/yaepc.o" "$LIBX/yaepxx.o" -lrapidcheck 2>$OD/link.log || { cat $OD/link.log >&2; exit 2; }
fi
NAME=${PBT_NAME:-pbt}; [ "$HV" = plain ] && [ -z "${PBT_NAME:-}" ] && NAME=pbt-plain
ln -sf "pbt-$LK" build/bin/$NAME
echo "$ROOT/build/bin/$NAME"
