#!/bin/bash
# Runs the repository's own 120-test baseline with the hook guard OFF
# (plain cmake build of /repo's working tree in a temporary directory) and
# compares the set of passing tests with /root/.vp/BASELINE.json.
# exit 0 iff every stable_pass test passes.
set -u
REPO=${REPO:-/repo}
B=$(mktemp -d /var/tmp/yaep-baseline.XXXXXX)
trap 'rm -rf "$B"' EXIT
cmake -S "$REPO" -B "$B" -G Ninja -DCMAKE_BUILD_TYPE=RelWithDebInfo -DCMAKE_C_FLAGS="-Wno-error" -DCMAKE_CXX_FLAGS="-Wno-error" >"$B/conf.log" 2>&1 || { tail -30 "$B/conf.log"; echo "BASELINE configure failed"; exit 2; }
# the repository's CMake files let yaep_test race with the bison step: generate sgramm.c first
cmake --build "$B" --target sgramm_c >"$B/build0.log" 2>&1 || true
cmake --build "$B" -j16 -- -k0 >"$B/build.log" 2>&1 || true
ctest --test-dir "$B" -j8 --timeout 900 >"$B/ctest.log" 2>&1 || true
python3 - "$B/ctest.log" <<'PY'
import json,re,sys
want=set(t.split('::')[0] for t in json.load(open('/root/.vp/BASELINE.json'))['stable_pass'])
passed=set(); failed=set()
for l in open(sys.argv[1]):
    m=re.search(r'Test\s+#\d+:\s+(\S+)\s+\.+\s*(\*+\w+|\w+)',l)
    if m:
        (passed if m.group(2)=='Passed' else failed).add(m.group(1))
missing=sorted(want-passed)
print("baseline(guard off): %d/%d stable tests pass; other failing: %s"%(len(want&passed),len(want),sorted(failed-want)))
if missing:
    print("NOT PASSING:",missing); sys.exit(1)
PY
