#!/bin/bash
# with_seed.sh <seed-id> <tier> <property>... : applies seeded/<seed-id>/patch.diff to /repo, runs the checks, undoes the patch.
# Development helper (the registered checks never use it).  Prints one line per check: caught / missed.
set -u
ROOT=$(cd "$(dirname "$0")/.." && pwd)
S=$1; T=$2; shift 2
if [ -n "$(git -C /repo status --porcelain --untracked-files=no)" ]; then echo "/repo is not clean"; exit 2; fi
git -C /repo apply "$ROOT/seeded/$S/patch.diff" || exit 2
trap 'git -C /repo checkout -- .' EXIT
for P in "$@"; do
  t0=$(date +%s)
  # the evidence file describes the last run on the unchanged tree: keep it
  [ -f "$ROOT/evidence/$P.json" ] && cp "$ROOT/evidence/$P.json" "$ROOT/build/evidence-$P.keep"
  out=$("$ROOT/check" "$P" "$T" 2>&1); rc=$?
  [ -f "$ROOT/build/evidence-$P.keep" ] && mv "$ROOT/build/evidence-$P.keep" "$ROOT/evidence/$P.json"
  t1=$(date +%s)
  if [ $rc -eq 1 ]; then r=caught; elif [ $rc -eq 0 ]; then r=missed; else r="broken(rc=$rc)"; fi
  echo "seed $S: check $P $T: $r in $((t1-t0))s :: $(echo "$out" | grep -E "^VIOLATION|CHECK-BROKEN|BUILD-FAILED" | head -2 | tr '\n' ' ')"
  echo "$out" | grep -A1 "^VIOLATION" | grep -v "^VIOLATION" | head -2 | cut -c1-500
done
