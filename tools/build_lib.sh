#!/bin/bash
# build_lib.sh <variant>  ->  prints the directory holding the built objects
#
# Builds the yaep library objects from /repo's CURRENT working tree with the
# hook guard (-DYAEP_VERIF) on.  Output is cached under /verif/build/lib/<key>/
# where <key> is a hash over every file in /repo/src plus the variant's flags,
# so an edit to /repo/src always causes a rebuild.
#
# variants:
#   c-san    clang -O1 ASan+UBSan, libc allocation symbols redirected to verif_*
#   c-plain / cxx-plain  no sanitizer, release configuration (asserts off), allocation symbols redirected: the valgrind tier of C12
#   c-fuzz   c-san + -fsanitize=fuzzer-no-link
#   cxx-san  libyaep++ (C++ containers), ASan+UBSan, partially linked so that it
#            can live in one process with libyaep
#   c-cov    as c-san, no redirect (used by nothing registered; debugging aid)
set -eu
V=${1:?variant}
REPO=${REPO:-/repo}
ROOT=$(cd "$(dirname "$0")/.." && pwd)
SAN="-fsanitize=address,undefined -fno-sanitize=pointer-overflow -fno-sanitize-recover=undefined -fno-omit-frame-pointer"
case "$V" in
  c-san)   CC=clang;   FL="-O1 -g $SAN";;
  c-plain) CC=clang;   FL="-O1 -g -gdwarf-4";;
  c-fuzz)  CC=clang;   FL="-O1 -g $SAN -fsanitize=fuzzer-no-link";;
  cxx-san) CC=clang++; FL="-O1 -g $SAN -std=gnu++11 -Wno-deprecated -Wno-writable-strings -Wno-register";;
  cxx-plain) CC=clang++; FL="-O1 -g -gdwarf-4 -std=gnu++11 -Wno-deprecated -Wno-writable-strings -Wno-register";;
  *) echo "unknown variant $V" >&2; exit 2;;
esac
FL="$FL -DYAEP_VERIF -w"
# internal assertions of yaep.c on (yaep.c defines NDEBUG itself unless YAEP_DEBUG is given; the repository's own test
# programs are compiled with -DYAEP_DEBUG): a failing assertion is an abort of the library, i.e. a verdict of the checks
[ "$V" != c-plain ] && [ "$V" != cxx-plain ] && FL="$FL -DYAEP_DEBUG"
KEY=$( (cat "$REPO"/src/*.c "$REPO"/src/*.h "$REPO"/src/*.cpp "$REPO"/src/*.y; echo "$V $FL"; cat "$0") | sha256sum | cut -c1-16)
OUT="$ROOT/build/lib/$V-$KEY"
if [ -f "$OUT/.done" ]; then echo "$OUT"; exit 0; fi
# keep the cache small: drop older builds of the same variant
mkdir -p "$ROOT/build/lib"
for d in $(ls -dt "$ROOT"/build/lib/$V-* 2>/dev/null | tail -n +3); do [ -d "$d" ] && [ "$d" != "$OUT" ] && rm -rf "$d"; done
TMP="$OUT.tmp.$$"; rm -rf "$TMP"; mkdir -p "$TMP"
cd "$TMP"
bison -o sgramm.c "$REPO/src/sgramm.y" 2>bison.log || { cat bison.log >&2; exit 2; }
REDEF="--redefine-sym malloc=verif_malloc --redefine-sym calloc=verif_calloc --redefine-sym realloc=verif_realloc --redefine-sym free=verif_free"
if [ "$V" = cxx-san ] || [ "$V" = cxx-plain ]; then
  pids=""
  for f in hashtab objstack vlobject yaep; do
    $CC $FL -I"$REPO/src" -I. -c "$REPO/src/$f.cpp" -o $f.xx.o 2>$f.log & pids="$pids $!"
  done
  for p in $pids; do wait $p || { cat *.log >&2; exit 2; }; done
  ld -r hashtab.xx.o objstack.xx.o vlobject.xx.o yaep.xx.o -o yaepxx.o
  objcopy $REDEF -L yaep_yychar -L yaep_yylval -L yaep_yynerrs -L yaep_yyparse -L yaep_yylex -L yaep_yyerror yaepxx.o
  rm -f *.xx.o
else
  pids=""
  for f in allocate hashtab objstack vlobject yaep; do
    $CC $FL -I"$REPO/src" -I. -c "$REPO/src/$f.c" -o $f.o 2>$f.log & pids="$pids $!"
  done
  for p in $pids; do wait $p || { cat *.log >&2; exit 2; }; done
  for f in allocate hashtab objstack vlobject yaep; do objcopy $REDEF $f.o; done
  ld -r allocate.o hashtab.o objstack.o vlobject.o yaep.o -o yaepc.o
fi
cp "$REPO/src/yaep.h" .
touch .done
cd /; mv "$TMP" "$OUT"
echo "$OUT"
