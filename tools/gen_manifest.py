#!/usr/bin/env python3
# Regenerates /verif/MANIFEST.json from the table below (development helper).
import json,subprocess,os
ROOT=os.path.dirname(os.path.dirname(os.path.abspath(__file__)))
props=[json.loads(l) for l in open(os.path.join(ROOT,'properties.jsonl'))]
def hooks():
    r=subprocess.run(['git','-C','/repo','log','--format=%h %s'],stdout=subprocess.PIPE,text=True).stdout.splitlines()
    return [l.split()[0] for l in r if 'verif hooks' in l]
CLAIMED = {
 'C01': ("differential testing against a reference Earley recogniser + CYK chart on generated grammars/inputs (rapidcheck, forked children, ASan/UBSan)", "6.C01",
         "Exploration: thousands of random grammars x inputs x all 24 flag combinations per quick run; finds recognition bugs that need nullable + hidden-left-recursive shapes (found F11, F12). No proof: sizes bounded (<=5 nonterminals, <=14 tokens)."),
 'C02': ("membership of the returned tree in the set of translations enumerated by a reference derivation enumerator", "6.C02",
         "Exploration over random translation specifications; every TERM code/attribute, node name and child order is compared through a canonical string."),
 'C03': ("set equality between the trees denoted by the DAG and the reference enumeration; hook H1 attributes the one listed incompleteness", "6.C03",
         "Exploration; soundness half (no spurious tree, acyclic, no ALT in ALT) is judged on every case, completeness exactly on every case without an H1 event (about 90% of the ambiguous cases)."),
 'C04': ("reference cost calculator: result == arg-min over the unpruned DAG and == reference arg-min; own costs recovered by subtraction from the cost fields", "6.C04",
         "Exploration with ties, zero costs, shared nodes, both parse_free modes (found F13, F14, F14b, F15, F29, F30)."),
 'C05': ("reference derivation count and translation count vs the ambiguity flag", "6.C05", "Exploration over all flag combinations."),
 'C06': ("reference viable-prefix position + argument invariants on every syntax_error call", "6.C06", "Exploration on reduced (strict) grammars with and without error rules (found F19, F28)."),
 'C07': ("full-yield grammars: the leaves of the recovered tree must be a repair of the input; token accounting against the callbacks; membership in the reference enumeration over the augmented grammar", "6.C07",
         "Exploration (found F20, F21, F22). Restricted to full-yield translations; the residual NULL-root class is a listed finding."),
 'C10': ("reference grammar classifier (admissible error-code set) on generated terminal/rule lists with injected defects", "6.C10",
         "Exploration: tens of thousands of definitions per run, every documented defect class and pairs of them (found F17, F18)."),
 'C11': ("twin definition: printed description vs read_grammar of the denoted grammar, compared on definition result and parse outcomes; mutated texts must fail cleanly with a line number inside the text", "6.C11",
         "Exploration over lexical variation of the documented syntax (found F05, F06, F07, F08, F10)."),
 'C12': ("coverage-guided fuzzing (two libFuzzer targets with semantic oracles inside, ASan+UBSan, seed corpus from the repository's test descriptions and empty corpus) plus a rapidcheck robustness property on noisy inputs and on grammars of hundreds of symbols, plus a memcheck tier (the generators of six properties under valgrind against a build without sanitizers: uses of uninitialised values); hooks H3/H5 bound the recovery search and the number of alternative nodes", "6.C12",
         "Exploration: ~10^5-10^6 executions per quick run (found F04, F05, F06, F22b, F27, F28, F39). The unbounded recovery search is a listed finding; bounded time is decided only as 'no reproducible hang or explosion within generous limits on small inputs'."),
 'C13': ("tracking tree allocator as model of the caller's heap: per-parse live-block sets, reachability walk, re-walk after yaep_free_grammar, yaep_free_tree accounting, terminal-callback count, library leak accounting through the redirected malloc", "6.C13",
         "Exploration with 1-3 live trees per object, cost pruning, recovery, three allocator modes (found F15, F25, F29)."),
 'C14': ("stateful (model-based) testing: generated API histories over 3 object slots; every call compared with a pure model and with the same call on a fresh object in a fresh process; ASan; library memory accounting at the end", "6.C14",
         "Exploration over histories of 4-40 operations with good, defective and mutated grammars (found F01, F02, F09, F10, F32, F34)."),
 'C15': ("stateful testing against a pure model of the documented error-state / token-validation / setter contract", "6.C15",
         "Exploration with emphasis on undeclared token codes inside and outside the declared range and on getters after failures (found F03, F08, F33)."),
 'C16': ("differential testing: the same generated history through the C functions and through class yaep in one process, transcripts compared; long inputs force the C++ containers to grow", "6.C16",
         "Exploration (found F24). The C side is judged by C01-C15; this check only demands equality."),
 'C09': ("metamorphic testing (lookahead level and debug level must not change the outcome tuple) + hook H2: every goto-cache hit is recomputed and compared with the cached set", "6.C09",
         "Exploration on random grammars with short inputs (all 6 lookahead values x 9 debug levels) and inputs of up to 150/400 tokens made of repeated fragments (found F10, F28). The ANSI C grammar is covered by the thorough tier only if the tokenised fixture could be built."),
 'C17': ("fault injection with exhaustive enumeration of the failing allocation request per scenario (library malloc/calloc/realloc redirected by objcopy to failing wrappers), each k in a fresh child under ASan/UBSan with poisoned fresh memory", "6.C17",
         "Fault enumeration: every k in 1..K for generated scenarios (create / define by callbacks or text / one or two parses, three tree-allocator modes). Found F23, F36, F37, F38. One failure per run, as the property states."),
 'C18': ("metamorphic / scaling test on generated inputs of deterministic grammar families: machine-independent work units (allocator bytes via redirected malloc, the library's hash-table search and collision counters, distinct sets and set cores via hook H4) for n and 2n; families: lists, expressions, statements, precedence chains, the ANSI C grammar of test41 on the tokens of test/test.i", "6.C18",
         "Exploration: empirical growth ratios with calibrated head-room on three grammar families and three lookahead levels, n up to 32k quick / 256k thorough; no complexity proof. The ANSI C family is not included (see DESIGN)."),
 'C19': ("model-based testing of operation sequences against std::set / byte-vector models, invariants checked after every operation, C containers through a C shim and C++ classes directly, ASan", "6.C19",
         "Exploration with sizes around the segment and growth thresholds; all six containers equally (found F24b; F24 through C16)."),
 'C08': ("reference minimum over all simple recoveries computed on reference Earley sets", "6.C08", "Exploration; inequality only, as the property states; meaningful together with C07's accounting clause."),
}
m={
 "version":1,
 "setup_cmd":"tools/setup.sh",
 "hooks":{"guard":"YAEP_VERIF","enable":"tools/build_lib.sh compiles /repo/src/*.c with -DYAEP_VERIF (observation-only hooks inside #ifdef YAEP_VERIF; harness-set limits can end an exploding recovery search or an exploding all-parses translation through the ordinary YAEP_NO_MEMORY exit; the same builds also define YAEP_DEBUG, i.e. keep the assertions of yaep.c)","baseline_off_cmd":"tools/baseline_off.sh","source_commits":hooks(),"add_only":True},
 "engines":[{"name":"libfuzzer","path":"src/fuzz","serves_properties":["C12"],"kind_free_text":"libFuzzer targets fuzz_desc and fuzz_api built by tools/build_fuzz.sh, run by ./check C12"},{"name":"pbt","path":"src/pbt_main.cpp","serves_properties":sorted(CLAIMED),"kind_free_text":"rapidcheck property-based driver: choice-sequence generators (all randomness from rapidcheck, so shrinking and seeds work), fork-server isolation of every case, bounded shrinking, plain-text replay files, 3x replay confirmation"}],
 "checks":[],
 "not_applicable":[],
 "notes":"see DESIGN.md; known findings in known_findings.json; ./check <ID> <quick|thorough>, ./check --replay <file>"
}
for p in props:
    i=p['id']
    if i in CLAIMED:
        tech,ref,txt=CLAIMED[i]
        m['checks'].append({"property_id":i,"quick_cmd":"./check %s quick"%i,"thorough_cmd":"./check %s thorough"%i,"evidence_file":"evidence/%s.json"%i,
          "replay_cmd_template":"./check --replay {path}","engine":"pbt","technique":tech,
          "level_claimed":{"category":"fault_enumeration" if i=='C17' else "exploration","text":txt,"design_ref":ref},
          "level_note":"trusted base: the reference model in src/model.hpp (self-checked: Earley vs chart on every case), the yaep.h contract, clang ASan/UBSan; bounded sizes"})
    else:
        m['not_applicable'].append({"property_id":i,"reason":"check not built yet in this session (work in progress; will be claimed once its oracle is validated)"})
json.dump(m,open(os.path.join(ROOT,'MANIFEST.json'),'w'),indent=1)
print("claimed:",sorted(CLAIMED))
