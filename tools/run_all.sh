#!/bin/bash
# run_all.sh <tier> [ids...] : every check of the manifest one after the other; one summary line each (development helper)
T=${1:-quick}; shift
ROOT=$(cd "$(dirname "$0")/.." && pwd)
IDS=${@:-C01 C02 C03 C04 C05 C06 C07 C08 C09 C10 C11 C12 C13 C14 C15 C16 C17 C18 C19}
for P in $IDS; do
  t0=$(date +%s); out=$("$ROOT/check" $P $T 2>&1); rc=$?; t1=$(date +%s)
  echo "$P $T rc=$rc $((t1-t0))s :: $(echo "$out" | grep -E "^C[0-9]+ |VIOLATION|CHECK-BROKEN|BUILD" | head -3 | tr '\n' ' ' | cut -c1-400)"
done
