# development helper: exact-text replacement in GNU-indented sources; blocks are written with spaces only
# and leading runs of 8 spaces are converted to tabs (the convention of yaep's sources).
import re,sys
def tabify(t):
    out=[]
    for line in t.split('\n'):
        m=re.match(r' *',line); n=len(m.group(0))
        out.append('\t'*(n//8)+' '*(n%8)+line[n:])
    return '\n'.join(out)
class P:
    def __init__(self,path): self.path=path; self.s=open(path).read()
    def rep(self,old,new,cnt=1):
        o=tabify(old); n=tabify(new)
        assert self.s.count(o)==cnt,(old,self.s.count(o))
        self.s=self.s.replace(o,n)
    def after(self,anchor,text): self.rep(anchor,anchor+text)
    def before(self,anchor,text): self.rep(anchor,text+anchor)
    def save(self): open(self.path,'w').write(self.s)
