#!/bin/bash
# builds the libFuzzer targets against the c-fuzz variant of the library (rebuilt from /repo's current tree)
set -eu
ROOT=$(cd "$(dirname "$0")/.." && pwd)
cd "$ROOT"
REPO=${REPO:-/repo}
LIB=$(tools/build_lib.sh c-fuzz)
KEY=$( (cat src/fuzz/* src/yrun.cpp src/*.hpp tools/build_fuzz.sh; echo "$LIB") | sha256sum | cut -c1-12)
OUT="build/fuzz/$KEY"
if [ -f "$OUT/.done" ]; then echo "$ROOT/$OUT"; exit 0; fi
rm -rf build/fuzz; mkdir -p "$OUT"
FL="-std=gnu++17 -O1 -g -fsanitize=address,undefined -fno-sanitize-recover=undefined -fno-omit-frame-pointer -I$LIB -Isrc -I$REPO/src -w"
clang++ $FL -fsanitize=fuzzer-no-link -c src/yrun.cpp -o "$OUT/yrun.o" &
clang++ $FL -fsanitize=fuzzer-no-link -c src/fuzz/fuzz_desc.cc -o "$OUT/fuzz_desc.o" &
clang++ $FL -fsanitize=fuzzer-no-link -c src/fuzz/fuzz_api.cc -o "$OUT/fuzz_api.o" &
wait
for t in fuzz_desc fuzz_api; do
  clang++ -fsanitize=fuzzer,address,undefined "$OUT/$t.o" "$OUT/yrun.o" "$LIB/yaepc.o" -o "$OUT/$t"
done
touch "$OUT/.done"
echo "$ROOT/$OUT"
